// copy to: plumbing/transport/
package transport

// Defects of the UNCHANGED tree against property C39. Each test FAILS on the
// scratch base commit (no seeded change needed).

import (
	"bytes"
	"context"
	"io"
	"strings"
	"testing"

	"github.com/go-git/go-billy/v6/osfs"

	"github.com/go-git/go-git/v6/plumbing"
	"github.com/go-git/go-git/v6/plumbing/format/packfile"
	"github.com/go-git/go-git/v6/plumbing/protocol/capability"
	"github.com/go-git/go-git/v6/plumbing/protocol/packp"
	"github.com/go-git/go-git/v6/storage"
	"github.com/go-git/go-git/v6/storage/filesystem"
	"github.com/go-git/go-git/v6/storage/memory"
	"github.com/go-git/go-git/v6/utils/ioutil"
)

// preC39Schedule wraps a storer and lets the test run something at the moment
// a receive-pack server is about to write (SetReference) or remove
// (RemoveReference) a reference: the point between the server's check of the
// current value and its write, where another push to the same repository can
// be scheduled. Each hook fires once.
type preC39Schedule struct {
	storage.Storer
	beforeSet    func()
	beforeRemove func()
}

func (s *preC39Schedule) SetReference(r *plumbing.Reference) error {
	if f := s.beforeSet; f != nil {
		s.beforeSet = nil
		f()
	}
	return s.Storer.SetReference(r)
}

func (s *preC39Schedule) RemoveReference(n plumbing.ReferenceName) error {
	if f := s.beforeRemove; f != nil {
		s.beforeRemove = nil
		f()
	}
	return s.Storer.RemoveReference(n)
}

func preC39Blob(t *testing.T, st storage.Storer, content string) plumbing.Hash {
	t.Helper()
	o := st.NewEncodedObject()
	o.SetType(plumbing.BlobObject)
	w, err := o.Writer()
	if err != nil {
		t.Fatal(err)
	}
	if _, err := io.WriteString(w, content); err != nil {
		t.Fatal(err)
	}
	if err := w.Close(); err != nil {
		t.Fatal(err)
	}
	h, err := st.SetEncodedObject(o)
	if err != nil {
		t.Fatal(err)
	}
	return h
}

// preC39Push is one client's push: the commands and, when one of them is not a
// delete, an empty packfile (the objects are on the server already). It
// returns the raw answer and the decoded report-status.
func preC39Push(t *testing.T, st storage.Storer, cmds ...*packp.Command) (string, *packp.ReportStatus) {
	t.Helper()

	req := &packp.UpdateRequests{Commands: cmds}
	req.Capabilities.Add(capability.ReportStatus)

	var in bytes.Buffer
	if err := req.Encode(&in); err != nil {
		t.Fatal(err)
	}
	for _, c := range cmds {
		if c.Action() != packp.Delete {
			enc := packfile.NewEncoder(&in, memory.NewStorage(), false)
			if _, err := enc.Encode(nil, 10); err != nil {
				t.Fatal(err)
			}
			break
		}
	}

	var out bytes.Buffer
	_ = ReceivePack(context.Background(), st, io.NopCloser(&in), ioutil.WriteNopCloser(&out),
		&ReceivePackRequest{StatelessRPC: true})

	raw := out.String()
	rs := &packp.ReportStatus{}
	if err := rs.Decode(&out); err != nil {
		t.Fatalf("decoding report-status %q: %v", raw, err)
	}
	return raw, rs
}

func preC39OK(rs *packp.ReportStatus, n plumbing.ReferenceName) bool {
	for _, cs := range rs.CommandStatuses {
		if cs.ReferenceName == n {
			return strings.TrimSpace(cs.Status) == "ok"
		}
	}
	return false
}

func preC39Storage(t *testing.T) storage.Storer {
	t.Helper()
	return filesystem.NewStorage(osfs.New(t.TempDir()), nil)
}

// Two clients create the same branch with different values at the same time.
// The create command says "the reference does not exist" (old value zero). The
// server checks that with referenceExists and then calls SetReference, which
// compares nothing: when the second push lands between the two, both creates
// are accepted, both clients are told "ok", and the first writer's value is
// overwritten by a command whose old value (absent) was no longer current.
// Canonical git takes the reference lock and refuses the loser.
func TestPreexistingC39ConcurrentCreatesBothAccepted(t *testing.T) {
	base := preC39Storage(t)
	a := preC39Blob(t, base, "value A")
	b := preC39Blob(t, base, "value B")
	name := plumbing.ReferenceName("refs/heads/topic")

	st := &preC39Schedule{Storer: base}
	var second *packp.ReportStatus
	st.beforeSet = func() {
		// Push 1 has seen that the branch is absent and is about to write
		// it. Push 2 runs to completion now.
		_, second = preC39Push(t, st, &packp.Command{Name: name, Old: plumbing.ZeroHash, New: b})
	}
	_, first := preC39Push(t, st, &packp.Command{Name: name, Old: plumbing.ZeroHash, New: a})

	if second == nil {
		t.Fatal("the second push was not scheduled")
	}
	ref, err := base.Reference(name)
	if err != nil {
		t.Fatal(err)
	}
	t.Logf("push 1 (create ..%s) ok=%v, push 2 (create ..%s) ok=%v, reference at %s",
		a, preC39OK(first, name), b, preC39OK(second, name), ref.Hash())
	if preC39OK(first, name) && preC39OK(second, name) {
		t.Errorf("both creates of %s were reported ok; the reference is at %s, so the client told ok for %s was misinformed, "+
			"and a create was applied although the reference existed", name, ref.Hash(), b)
	}
}

// A client deletes a branch it saw at A while another client moves the branch
// from A to B. The delete's old value is compared by currentValueIs and then
// RemoveReference is called unconditionally: when the update lands between the
// two, the branch at B is removed by a command whose old value A is stale, and
// the second client was told that the branch is at B.
func TestPreexistingC39DeleteRemovesConcurrentlyUpdatedReference(t *testing.T) {
	base := preC39Storage(t)
	a := preC39Blob(t, base, "value A")
	b := preC39Blob(t, base, "value B")
	name := plumbing.ReferenceName("refs/heads/topic")
	if err := base.SetReference(plumbing.NewHashReference(name, a)); err != nil {
		t.Fatal(err)
	}

	st := &preC39Schedule{Storer: base}
	var second *packp.ReportStatus
	st.beforeRemove = func() {
		_, second = preC39Push(t, st, &packp.Command{Name: name, Old: a, New: b})
	}
	_, first := preC39Push(t, st, &packp.Command{Name: name, Old: a, New: plumbing.ZeroHash})

	if second == nil {
		t.Fatal("the second push was not scheduled")
	}
	if !preC39OK(second, name) {
		t.Fatalf("the update %s..%s was refused: %+v", a, b, second.CommandStatuses)
	}
	_, err := base.Reference(name)
	t.Logf("delete (old %s) ok=%v, update %s..%s ok=true, reference lookup: %v", a, preC39OK(first, name), a, b, err)
	if preC39OK(first, name) {
		t.Errorf("delete of %s with old value %s was applied and reported ok although the reference was at %s", name, a, b)
	}
}

// The unpack status line of the report carries the first reference failure:
// sendReportStatus is called with firstErr as its unpackErr argument. The pack
// was unpacked without error, and the go-git client (ReportStatus.Error) as
// well as git look at the unpack line first: they conclude that nothing was
// stored, also for the references the server did update.
func TestPreexistingC39UnpackStatusCarriesReferenceFailure(t *testing.T) {
	st := preC39Storage(t)
	a := preC39Blob(t, st, "value A")
	b := preC39Blob(t, st, "value B")
	good := plumbing.ReferenceName("refs/heads/good")
	stale := plumbing.ReferenceName("refs/heads/stale")
	for _, n := range []plumbing.ReferenceName{good, stale} {
		if err := st.SetReference(plumbing.NewHashReference(n, a)); err != nil {
			t.Fatal(err)
		}
	}

	raw, rs := preC39Push(t, st,
		&packp.Command{Name: good, Old: a, New: b},
		&packp.Command{Name: stale, Old: b, New: a}, // stale old value: refused
	)
	if !preC39OK(rs, good) || preC39OK(rs, stale) {
		t.Fatalf("unexpected command statuses in %q", raw)
	}
	if ref, err := st.Reference(good); err != nil || ref.Hash() != b {
		t.Fatalf("%s was not updated", good)
	}
	if rs.UnpackStatus != "ok" {
		t.Errorf("the pack was unpacked and %s was updated, but the report says %q instead of \"unpack ok\"; "+
			"the client's view of the whole push: %v", good, "unpack "+rs.UnpackStatus, rs.Error())
	}
}
