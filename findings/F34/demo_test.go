// copy to: . (repository root; external test package git_test). Demonstrates F34 (C01): a
// SetEncodedObject whose content copy fails half way still published the truncated loose object.
package git_test

import (
	"errors"
	"io"
	"os"
	"os/exec"
	"path/filepath"
	"testing"

	"github.com/go-git/go-billy/v6/osfs"

	"github.com/go-git/go-git/v6/plumbing"
	"github.com/go-git/go-git/v6/plumbing/cache"
	formatcfg "github.com/go-git/go-git/v6/plumbing/format/config"
	"github.com/go-git/go-git/v6/storage/filesystem"
)

// failingObject is an EncodedObject whose content reader fails after
// delivering only part of the declared size (an I/O error while the object is
// being copied into the object database).
type failingObject struct {
	plumbing.EncodedObject
	data []byte
	size int64
}

var errInjected = errors.New("injected read error")

func (o *failingObject) Type() plumbing.ObjectType { return plumbing.BlobObject }
func (o *failingObject) Size() int64               { return o.size }
func (o *failingObject) Hash() plumbing.Hash       { return plumbing.ZeroHash }
func (o *failingObject) Reader() (io.ReadCloser, error) {
	return io.NopCloser(io.MultiReader(
		&sliceReader{o.data}, errReader{},
	)), nil
}

type sliceReader struct{ b []byte }

func (r *sliceReader) Read(p []byte) (int, error) {
	if len(r.b) == 0 {
		return 0, io.EOF
	}
	n := copy(p, r.b)
	r.b = r.b[n:]
	return n, nil
}

type errReader struct{}

func (errReader) Read([]byte) (int, error) { return 0, errInjected }

// TestF34FailedWriteLeavesTruncatedLooseObject: SetEncodedObject
// fails half way (the source reader errors), returns the error - but the
// deferred Close of the dotgit ObjectWriter still renames the temporary file
// into objects/xx/, under the id of the *partial* stream. The object database
// now holds a loose object whose header declares 100 bytes and whose body has
// 10; git refuses to read it and git fsck reports corruption.
func TestF34FailedWriteLeavesTruncatedLooseObject(t *testing.T) {
	dir := t.TempDir()
	dotgit := filepath.Join(dir, ".git")
	st := filesystem.NewStorageWithOptions(osfs.New(dotgit), cache.NewObjectLRUDefault(),
		filesystem.Options{ObjectFormat: formatcfg.SHA1})
	if err := st.Init(); err != nil {
		t.Fatal(err)
	}
	defer func() { _ = st.Close() }()

	_, err := st.SetEncodedObject(&failingObject{data: []byte("0123456789"), size: 100})
	if !errors.Is(err, errInjected) {
		t.Fatalf("SetEncodedObject error = %v, want the injected error", err)
	}

	var loose []string
	_ = filepath.Walk(filepath.Join(dotgit, "objects"), func(p string, fi os.FileInfo, err error) error {
		if err == nil && !fi.IsDir() && len(filepath.Base(filepath.Dir(p))) == 2 {
			loose = append(loose, p)
		}
		return nil
	})
	if len(loose) != 0 {
		t.Errorf("failed SetEncodedObject published loose object(s): %v", loose)
		if gitBin, err := exec.LookPath("git"); err == nil {
			_ = os.WriteFile(filepath.Join(dotgit, "HEAD"), []byte("ref: refs/heads/master\n"), 0o644)
			out, ferr := exec.Command(gitBin, "-C", dir, "fsck", "--full").CombinedOutput()
			t.Logf("git fsck: err=%v\n%s", ferr, out)
		}
	}
}

