// copy to: plumbing/format/index/
//
// F54 (property C12): Encode checked only the upper bound of Index.Version.
// For an index without entries and Version 0 or 1 (the zero value of Index)
// it wrote a "DIRC" file that neither git ("bad index version") nor go-git's
// own decoder reads. Reported by a seeding sub-agent.
package index

import (
	"bytes"
	"crypto"
	"testing"
)

func TestF54_EncodeRefusesVersionsGitCannotRead(t *testing.T) {
	for _, v := range []uint32{0, 1} {
		var buf bytes.Buffer
		err := NewEncoder(&buf, crypto.SHA1.New()).Encode(&Index{Version: v})
		if err != nil {
			continue // refused: nothing unreadable was produced
		}
		if derr := NewDecoder(bytes.NewReader(buf.Bytes()), crypto.SHA1.New()).Decode(&Index{}); derr != nil {
			t.Errorf("Encode accepted version %d and wrote %d bytes its own decoder refuses: %v", v, buf.Len(), derr)
		}
	}
}
