package object

import (
	"testing"

	"github.com/go-git/go-git/v6/plumbing/filemode"
)

// Copy into plumbing/object/. Fails before commit 3d155d9, passes after.
// git canon_mode: S_ISREG(mode) ? (S_IFREG | ((mode & 0100) ? 0755 : 0644)).
func TestF4CanonMode(t *testing.T) {
	if got := canonicalTreeMode(filemode.FileMode(0o100011)); got != filemode.Regular {
		t.Fatalf("mode 100011 canonicalised to %o, git gives 100644", uint32(got))
	}
}
