package index

import "testing"

// Copy into plumbing/format/index/. Fails before commit d879732, passes after.
func TestF3SkipUnlessComponent(t *testing.T) {
	idx := &Index{Entries: []*Entry{{Name: "a/x"}, {Name: "ab/y"}, {Name: "a"}}}
	idx.SkipUnless([]string{"a"})
	if idx.Entries[0].SkipWorktree || idx.Entries[2].SkipWorktree {
		t.Fatal("entries inside the selected directory must not be skip-worktree")
	}
	if !idx.Entries[1].SkipWorktree {
		t.Fatal("ab/y is not inside directory a but was kept (string-prefix match)")
	}
}
