// copy to: . (repository root package, github.com/go-git/go-git/v6)
package git_test

import (
	"os"
	"path/filepath"
	"testing"
	"time"

	"github.com/go-git/go-billy/v6/osfs"
	"github.com/stretchr/testify/require"

	git "github.com/go-git/go-git/v6"
	"github.com/go-git/go-git/v6/plumbing/cache"
	"github.com/go-git/go-git/v6/storage/filesystem"
)

// A worktree file whose modification time is the Unix epoch (reproducible
// build trees, tar extractions with --mtime=@0, some container layers) is
// staged with ModifiedAt = time.Unix(0, 0). The encoder writes that as the
// pair (0, 0), which the decoder reads back as "no timestamp", the zero
// time.Time. SetIndex nevertheless caches the caller's value, so the cached
// view says "mtime 1970-01-01" where a decode of the file says "unset".
func TestPreexistingC20EpochMtimeCachedViewDiffersFromDisk(t *testing.T) {
	dir := t.TempDir()
	r, err := git.PlainInit(dir, false)
	require.NoError(t, err)
	w, err := r.Worktree()
	require.NoError(t, err)

	p := filepath.Join(dir, "epoch.txt")
	require.NoError(t, os.WriteFile(p, []byte("x\n"), 0o644))
	epoch := time.Unix(0, 0)
	require.NoError(t, os.Chtimes(p, epoch, epoch))

	_, err = w.Add("epoch.txt")
	require.NoError(t, err)

	// What the storage that performed the operation reports (cached view).
	cached, err := r.Storer.Index()
	require.NoError(t, err)

	// What decoding the file reports: a second storage over the same .git
	// has an empty cache and must decode.
	fresh := filesystem.NewStorage(osfs.New(filepath.Join(dir, ".git")), cache.NewObjectLRUDefault())
	defer func() { _ = fresh.Close() }()
	disk, err := fresh.Index()
	require.NoError(t, err)

	require.Len(t, cached.Entries, 1)
	require.Len(t, disk.Entries, 1)
	require.Truef(t, cached.Entries[0].ModifiedAt.Equal(disk.Entries[0].ModifiedAt),
		"cached ModifiedAt %v (IsZero=%v) != on-disk ModifiedAt %v (IsZero=%v)",
		cached.Entries[0].ModifiedAt, cached.Entries[0].ModifiedAt.IsZero(),
		disk.Entries[0].ModifiedAt, disk.Entries[0].ModifiedAt.IsZero())
}

