// copy to: plumbing/format/packfile/
//
// F57 (property C09): git's patch_delta refuses any delta shorter than
// DELTA_SIZE_MIN (4 bytes), so git index-pack rejects a pack holding e.g. the
// 2-byte delta "06 00"; the parser's streaming applier had no minimum and
// yielded the empty blob. Reported by a seeding sub-agent.
package packfile_test

import (
	"bytes"
	"compress/zlib"
	"crypto/sha1"
	"encoding/binary"
	"os/exec"
	"testing"

	"github.com/go-git/go-git/v6/plumbing"
	formatcfg "github.com/go-git/go-git/v6/plumbing/format/config"
	"github.com/go-git/go-git/v6/plumbing/format/packfile"
)

func f57Hash(t plumbing.ObjectType, c []byte) plumbing.Hash {
	h := plumbing.NewHasher(formatcfg.SHA1, t, int64(len(c)))
	_, _ = h.Write(c)
	return h.Sum()
}

// f57Pack builds a pack of whole (non-delta) blobs followed by
// optional REF-deltas (ref, delta) pairs.
func f57Pack(blobs [][]byte, refDeltas ...[2][]byte) []byte {
	var b bytes.Buffer
	b.WriteString("PACK")
	_ = binary.Write(&b, binary.BigEndian, uint32(2))
	_ = binary.Write(&b, binary.BigEndian, uint32(len(blobs)+len(refDeltas)))
	hdr := func(typ plumbing.ObjectType, size int) {
		first := byte(typ)<<4 | byte(size&15)
		size >>= 4
		for size != 0 {
			b.WriteByte(first | 0x80)
			first = byte(size & 0x7f)
			size >>= 7
		}
		b.WriteByte(first)
	}
	z := func(d []byte) {
		zw := zlib.NewWriter(&b)
		_, _ = zw.Write(d)
		_ = zw.Close()
	}
	for _, c := range blobs {
		hdr(plumbing.BlobObject, len(c))
		z(c)
	}
	for _, rd := range refDeltas {
		hdr(plumbing.REFDeltaObject, len(rd[1]))
		b.Write(rd[0])
		z(rd[1])
	}
	sum := sha1.Sum(b.Bytes())
	b.Write(sum[:])
	return b.Bytes()
}

// Finding 3: git's patch_delta() refuses any delta shorter than DELTA_SIZE_MIN
// (4 bytes) before looking at it, so `git index-pack` rejects a pack that holds
// e.g. the 2-byte delta "06 00" (source size 6, target size 0) with
// "pack has bad object at offset N: failed to apply delta". go-git accepts it
// and yields the empty blob (minDeltaSize is 2, and the Parser's streaming
// applier has no minimum at all).
func f57GitIndexPack(t *testing.T, pack []byte) (rejected, ran bool) {
	t.Helper()
	gitBin, err := exec.LookPath("git")
	if err != nil {
		return false, false
	}
	dir := t.TempDir()
	if out, err := exec.Command(gitBin, "init", "-q", "--bare", dir).CombinedOutput(); err != nil {
		t.Logf("git init: %v %s", err, out)
		return false, false
	}
	cmd := exec.Command(gitBin, "--git-dir", dir, "index-pack", "--stdin")
	cmd.Stdin = bytes.NewReader(pack)
	out, err := cmd.CombinedOutput()
	t.Logf("git index-pack: err=%v out=%q", err, out)
	return err != nil, true
}

func TestF57_DeltaShorterThanGitMinimum(t *testing.T) {
	base := []byte("hello\n")
	baseHash := f57Hash(plumbing.BlobObject, base)
	for name, tc := range map[string]struct {
		delta  []byte
		reject bool
	}{
		"2 bytes":                {[]byte{byte(len(base)), 0x00}, true},
		"3 bytes":                {[]byte{0x80 | byte(len(base)), 0x00, 0x00}, true},
		"4 bytes (empty target)": {[]byte{0x80 | byte(len(base)), 0x80, 0x00, 0x00}, false},
	} {
		pack := f57Pack([][]byte{base}, [2][]byte{baseHash.Bytes(), tc.delta})
		if rejected, ran := f57GitIndexPack(t, pack); ran && rejected != tc.reject {
			t.Fatalf("%s: premise does not hold: git rejected=%v", name, rejected)
		}
		_, err := packfile.NewParser(bytes.NewReader(pack)).Parse()
		if tc.reject && err == nil {
			t.Errorf("%s: pack with a delta below git's 4-byte minimum accepted; git index-pack rejects it", name)
		}
		if !tc.reject && err != nil {
			t.Errorf("%s: pack git accepts was rejected: %v", name, err)
		}
	}
}
