// copy to: /repo (package git). Demonstrates F24 (C31, open): with
// core.autocrlf=true git does not strip CRs on add when the blob the index
// already has for the path contains a CR (convert.c has_crlf_in_index, git
// >= 2.10); go-git converts regardless, so re-adding a checked-out file with
// CRLF line endings stores a different blob than git does.
// git 2.39: index blob "a\r\nb\n", worktree "a\r\nb\nc\n", autocrlf=true,
// `git add` stores "a\r\nb\nc\n".
package git

import (
	"io"
	"testing"

	"github.com/go-git/go-billy/v6/memfs"
	"github.com/go-git/go-git/v6/plumbing/object"
	"github.com/go-git/go-git/v6/storage/memory"
)

func TestF24SafeCRLFOnAdd(t *testing.T) {
	fs := memfs.New()
	r, err := Init(memory.NewStorage(), WithWorkTree(fs))
	if err != nil {
		t.Fatal(err)
	}
	w, _ := r.Worktree()
	write := func(s string) {
		f, _ := fs.Create("mixed.txt")
		f.Write([]byte(s))
		f.Close()
	}
	write("a\r\nb\n")
	if _, err := w.Add("mixed.txt"); err != nil {
		t.Fatal(err)
	}
	if _, err := w.Commit("x", &CommitOptions{Author: &object.Signature{Name: "x", Email: "x@x"}}); err != nil {
		t.Fatal(err)
	}
	cfg, _ := r.Config()
	cfg.Core.AutoCRLF = "true"
	if err := r.SetConfig(cfg); err != nil {
		t.Fatal(err)
	}
	write("a\r\nb\nc\n")
	h, err := w.Add("mixed.txt")
	if err != nil {
		t.Fatal(err)
	}
	b, err := r.BlobObject(h)
	if err != nil {
		t.Fatal(err)
	}
	rd, _ := b.Reader()
	got, _ := io.ReadAll(rd)
	if string(got) != "a\r\nb\nc\n" {
		t.Fatalf("stored %q, git stores %q", got, "a\r\nb\nc\n")
	}
}
