package commitgraph_test

import (
	"bytes"
	"testing"
	"time"

	"github.com/go-git/go-git/v6/plumbing"
	"github.com/go-git/go-git/v6/plumbing/format/commitgraph"
)

// Copy into plumbing/format/commitgraph/. A commit whose committer time lies
// outside 34 bits (here: before 1970) must read back with its own generation
// number; before the fix the time's high bits were OR-ed over the generation.
func TestF20GenerationSurvivesOddTimes(t *testing.T) {
	h := plumbing.NewHash("1111111111111111111111111111111111111111")
	tree := plumbing.NewHash("2222222222222222222222222222222222222222")
	idx := commitgraph.NewMemoryIndex()
	idx.Add(h, &commitgraph.CommitData{TreeHash: tree, Generation: 5, When: time.Unix(-1000, 0)})
	var buf bytes.Buffer
	if err := commitgraph.NewEncoder(&buf).Encode(idx); err != nil {
		t.Fatal(err)
	}
	fi, err := commitgraph.OpenFileIndex(nopCloser{bytes.NewReader(buf.Bytes())})
	if err != nil {
		t.Fatal(err)
	}
	i, err := fi.GetIndexByHash(h)
	if err != nil {
		t.Fatal(err)
	}
	cd, err := fi.GetCommitDataByIndex(i)
	if err != nil {
		t.Fatal(err)
	}
	if cd.Generation != 5 {
		t.Fatalf("generation read back as %d, want 5", cd.Generation)
	}
}

type nopCloser struct{ *bytes.Reader }

func (nopCloser) Close() error { return nil }
