// copy to: plumbing/transport/
//
// F62 (property C39): the receive-pack report is kept per reference name; with
// two commands for one name the outcome of the second replaced the outcome of
// the first, which had been applied: the reference moved, the client was told
// "ng" and the PostReceive hook that nothing was applied. Reported by a seeding
// sub-agent.
//
// Defects that exist in the UNCHANGED tree (no seeded change needed) and
// violate property C39. Each test fails on the scratch base commit.
package transport

import (
	"bytes"
	"context"
	"io"
	"strings"
	"sync"
	"testing"

	"github.com/go-git/go-git/v6/plumbing"
	"github.com/go-git/go-git/v6/plumbing/format/packfile"
	"github.com/go-git/go-git/v6/plumbing/protocol/capability"
	"github.com/go-git/go-git/v6/plumbing/protocol/packp"
	"github.com/go-git/go-git/v6/storage"
	"github.com/go-git/go-git/v6/storage/memory"
	"github.com/go-git/go-git/v6/utils/ioutil"
)

func f62Blob(t *testing.T, st *memory.Storage, content string) plumbing.Hash {
	t.Helper()
	obj := st.NewEncodedObject()
	obj.SetType(plumbing.BlobObject)
	w, err := obj.Writer()
	if err != nil {
		t.Fatal(err)
	}
	if _, err := io.WriteString(w, content); err != nil {
		t.Fatal(err)
	}
	if err := w.Close(); err != nil {
		t.Fatal(err)
	}
	h, err := st.SetEncodedObject(obj)
	if err != nil {
		t.Fatal(err)
	}
	return h
}

// f62Push runs one receive-pack exchange against server. The pack holds
// `objs`, read from `from`. withReport selects whether the client asks for
// report-status. It returns what the server wrote and ReceivePack's error.
func f62Push(t *testing.T, server storage.Storer, from *memory.Storage, objs []plumbing.Hash,
	withReport bool, hooks ReceivePackHooks, cmds ...*packp.Command,
) (string, error) {
	t.Helper()

	req := &packp.UpdateRequests{Commands: cmds}
	if withReport {
		req.Capabilities.Add(capability.ReportStatus)
	} else {
		req.Capabilities.Add(capability.DeleteRefs)
	}

	var body bytes.Buffer
	if err := req.Encode(&body); err != nil {
		t.Fatal(err)
	}
	needPack := false
	for _, c := range cmds {
		if c.Action() != packp.Delete {
			needPack = true
		}
	}
	if needPack {
		enc := packfile.NewEncoder(&body, from, false)
		if _, err := enc.Encode(objs, 0); err != nil {
			t.Fatal(err)
		}
	}

	var out bytes.Buffer
	err := ReceivePack(context.Background(), server, io.NopCloser(&body), ioutil.WriteNopCloser(&out),
		&ReceivePackRequest{StatelessRPC: true, Hooks: hooks})
	return out.String(), err
}

// P1. Two commands for the same reference name in one request. The outcomes
// are kept in a map keyed by name (cmdStatus), so the second outcome
// overwrites the first: the first command is applied (the reference moves to
// B) but the client is told only "ng refs/heads/x", and the PostReceive hook
// is told nothing was applied. Canonical git reports one line per command.
func TestF62_DuplicateNameReportLosesAppliedOutcome(t *testing.T) {
	x := plumbing.ReferenceName("refs/heads/x")

	server := memory.NewStorage()
	a := f62Blob(t, server, "A\n")
	if err := server.SetReference(plumbing.NewHashReference(x, a)); err != nil {
		t.Fatal(err)
	}

	client := memory.NewStorage()
	b := f62Blob(t, client, "B\n")
	c := f62Blob(t, client, "C\n")

	var applied []*packp.Command
	hooks := ReceivePackHooks{PostReceive: func(_ context.Context, i *PostReceiveInfo) error {
		applied = i.Commands
		return nil
	}}

	report, _ := f62Push(t, server, client, []plumbing.Hash{b, c}, true, hooks,
		&packp.Command{Name: x, Old: a, New: b}, // applies
		&packp.Command{Name: x, Old: a, New: c}, // stale once the first applied
	)

	got, err := server.Reference(x)
	if err != nil {
		t.Fatal(err)
	}
	moved := got.Hash() != a
	t.Logf("refs/heads/x: %s -> %s; report %q; PostReceive saw %d applied command(s)", a, got.Hash(), report, len(applied))

	if moved && !strings.Contains(report, "ok "+x.String()) {
		t.Errorf("the server moved %s from %s to %s but reported no 'ok' for it: %q", x, a, got.Hash(), report)
	}
	if moved && len(applied) != 1 {
		t.Errorf("one command was applied, PostReceive was told about %d", len(applied))
	}
	if moved && len(applied) == 0 {
		t.Errorf("the server moved %s but told PostReceive that no command was applied", x)
	}
}

// f62RacingStorer lets a test run code at the point between
// updateReferences' old-value check and its SetReference: HasEncodedObject is
// called exactly there. It stands in for a second receive-pack process whose
// update lands in that window.
type f62RacingStorer struct {
	storage.Storer
	once sync.Once
	race func()
}

func (r *f62RacingStorer) HasEncodedObject(h plumbing.Hash) error {
	r.once.Do(r.race)
	return r.Storer.HasEncodedObject(h)
}

