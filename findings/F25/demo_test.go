// copy to: utils/convert/ . Demonstrates F25 (C31): lfToCRLFWriter keeps using
// the "previous chunk ended with CR" flag for every LF that starts a window
// inside the chunk, so after a CRLF split over two writes the next lone LF is
// passed through unconverted (git's crlf_to_worktree converts it).
package convert

import (
	"bytes"
	"testing"
)

func TestF25StaleHadCR(t *testing.T) {
	var out bytes.Buffer
	w := NewCRLFWriter(&out)
	w.Write([]byte("x\r"))
	w.Write([]byte("\n\nb"))
	if got, want := out.String(), "x\r\n\r\nb"; got != want {
		t.Fatalf("got %q want %q", got, want)
	}
}
