// copy to: plumbing/format/gitattributes/
//
// F59 (property C53): a .gitattributes line whose pattern is an empty quoted
// string and that carries nothing else (`""`) made ParseAttributesLine index
// an empty field list: panic, index out of range. Found by the zero-annotation
// safety sweep (gvc sweep plumbing/format/gitattributes:
// ParseAttributesLine.idx[attrs[0]]).
package gitattributes

import (
	"strings"
	"testing"
)

func TestF59_EmptyQuotedPatternDoesNotPanic(t *testing.T) {
	for _, line := range []string{`""`, `  ""  `, `"" `} {
		func() {
			defer func() {
				if r := recover(); r != nil {
					t.Errorf("ParseAttributesLine(%q) panicked: %v", line, r)
				}
			}()
			_, _ = ParseAttributesLine(line, nil, false)
		}()
	}
	func() {
		defer func() {
			if r := recover(); r != nil {
				t.Errorf("ReadAttributes panicked: %v", r)
			}
		}()
		_, _ = ReadAttributes(strings.NewReader("*.go text\n\"\"\n"), nil, false)
	}()
}
