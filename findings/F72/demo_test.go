// copy to: . (repository root package, github.com/go-git/go-git/v6)
package git_test

import (
	"os"
	"os/exec"
	"path/filepath"
	"testing"

	"github.com/stretchr/testify/require"

	git "github.com/go-git/go-git/v6"
)

// copyIndex gives every caller its own Entries, but the cached-tree,
// resolve-undo and end-of-index extensions are shared by pointer between the
// cache and every index handed out. A caller that invalidates the cached
// tree of its own copy (what any in-memory staging must do, and what git
// does by setting the entry count to -1) and never writes it back changes
// what the next Index() call reports, while the file still holds the old
// extension.
func TestPreexistingC20ExtensionsSharedWithCache(t *testing.T) {
	if _, err := exec.LookPath("git"); err != nil {
		t.Skip("git not installed")
	}
	dir := t.TempDir()
	run := func(args ...string) {
		cmd := exec.Command("git", args...)
		cmd.Dir = dir
		cmd.Env = append(os.Environ(), "GIT_AUTHOR_NAME=a", "GIT_AUTHOR_EMAIL=a@b", "GIT_COMMITTER_NAME=a", "GIT_COMMITTER_EMAIL=a@b")
		out, err := cmd.CombinedOutput()
		require.NoErrorf(t, err, "git %v: %s", args, out)
	}
	run("init", "-q")
	require.NoError(t, os.WriteFile(filepath.Join(dir, "a.txt"), []byte("a\n"), 0o644))
	run("add", "a.txt")
	run("commit", "-q", "-m", "c") // writes the TREE extension

	r, err := git.PlainOpen(dir)
	require.NoError(t, err)

	mine, err := r.Storer.Index()
	require.NoError(t, err)
	require.NotNil(t, mine.Cache)
	require.NotEmpty(t, mine.Cache.Entries)
	want := mine.Cache.Entries[0].Entries

	// Local, never written back.
	mine.Cache.Entries[0].Entries = -1

	again, err := r.Storer.Index()
	require.NoError(t, err)
	require.Equal(t, want, again.Cache.Entries[0].Entries,
		"the index read after an unrelated caller touched its own copy no longer matches the file")
}
