// copy to: storage/filesystem/dotgit/ . Demonstrates F30 (C24, open): a pack write on the
// same storage (NewObjectPack -> cleanPackList -> PackHandle.Close) closes the pack
// descriptor under a reader that still holds its cursor, although the storage was not closed.
package dotgit

import (
	"testing"

	fixtures "github.com/go-git/go-git-fixtures/v6"
)

func TestF30NewObjectPackClosesUnderReader(t *testing.T) {
	fs, err := fixtures.Basic().ByTag(".git").One().DotGit()
	if err != nil {
		t.Fatal(err)
	}
	dir := New(fs)
	defer dir.Close()
	packs, err := dir.ObjectPacks()
	if err != nil || len(packs) == 0 {
		t.Fatalf("packs: %v %v", packs, err)
	}
	ph, err := dir.PackHandle(packs[0])
	if err != nil {
		t.Fatal(err)
	}
	r, err := ph.OpenRandomReader()
	if err != nil {
		t.Fatal(err)
	}
	defer r.Close()
	buf := make([]byte, 4)
	if _, err := r.ReadAt(buf, 0); err != nil {
		t.Fatalf("first read: %v", err)
	}
	pw, err := dir.NewObjectPack() // an unrelated pack write on the same storage
	if err != nil {
		t.Fatal(err)
	}
	defer pw.Close()
	if _, err := r.ReadAt(buf, 0); err != nil {
		t.Fatalf("read through a still-held cursor after NewObjectPack: %v", err)
	}
}
