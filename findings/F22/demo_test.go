package git

// F22 (property C22): Prune deletes loose blobs that are only referenced from
// the index (staged, not yet committed). git prune keeps them (it treats the
// index as a root). Copy into /repo and run
//   go test -vet=off -count=1 -run TestF22 .

import (
	"testing"
	"time"

	"github.com/go-git/go-billy/v6/osfs"
	"github.com/go-git/go-billy/v6/util"

	"github.com/go-git/go-git/v6/plumbing"
	"github.com/go-git/go-git/v6/plumbing/cache"
	"github.com/go-git/go-git/v6/plumbing/object"
	"github.com/go-git/go-git/v6/storage/filesystem"
)

func TestF22PruneKeepsStagedObjects(t *testing.T) {
	dir := t.TempDir()
	wt := osfs.New(dir)
	dot, _ := wt.Chroot(".git")
	st := filesystem.NewStorage(dot, cache.NewObjectLRUDefault())
	r, err := Init(st, WithWorkTree(wt))
	if err != nil {
		t.Fatal(err)
	}
	w, _ := r.Worktree()
	if err := util.WriteFile(wt, "a.txt", []byte("committed\n"), 0o644); err != nil {
		t.Fatal(err)
	}
	if _, err := w.Add("a.txt"); err != nil {
		t.Fatal(err)
	}
	if _, err := w.Commit("c1", &CommitOptions{Author: &object.Signature{Name: "a", Email: "a@b", When: time.Now()}}); err != nil {
		t.Fatal(err)
	}
	if err := util.WriteFile(wt, "staged.txt", []byte("staged only\n"), 0o644); err != nil {
		t.Fatal(err)
	}
	h, err := w.Add("staged.txt")
	if err != nil {
		t.Fatal(err)
	}
	if _, err := r.Storer.EncodedObject(plumbing.AnyObject, h); err != nil {
		t.Fatalf("staged blob not stored: %v", err)
	}
	if err := r.Prune(PruneOptions{Handler: r.DeleteObject}); err != nil {
		t.Fatal(err)
	}
	idx, _ := r.Storer.Index()
	for _, e := range idx.Entries {
		if _, err := r.Storer.EncodedObject(plumbing.AnyObject, e.Hash); err != nil {
			t.Errorf("index entry %s -> %s unreadable after Prune: %v", e.Name, e.Hash, err)
		}
	}
}
