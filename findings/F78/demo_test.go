// copy to: plumbing/format/packfile/
//
// PRE-EXISTING defect (unchanged tree), property C53: the random-access pack
// reader (Packfile.Get / GetByOffset -> getMemoryObject) resolves a delta's
// base by plain recursion, with no chain-depth limit and no cycle detection.
// The streaming Parser has maxDeltaChainDepth; the Packfile reader has
// nothing. A REF_DELTA entry whose base id is (directly or through other
// REF_DELTA entries) its own id - which needs nothing but a matching .idx,
// and an .idx found in an opened repository directory is as untrusted as the
// .pack - makes Get recurse until the goroutine stack limit is hit, which is
// a fatal, unrecoverable "stack overflow" that kills the whole process (with
// the default 1 GB limit it first spins for a long time and pins gigabytes).
//
// The test lowers the stack limit so that the crash comes quickly. On the
// unchanged tree the test binary dies with
//
//	runtime: goroutine stack exceeds 67108864-byte limit
//	fatal error: stack overflow
//
// A correct reader returns an error (git: "delta chain / base cycle").
package packfile_test

import (
	"bytes"
	"compress/zlib"
	"crypto/sha1"
	"encoding/binary"
	"runtime/debug"
	"testing"
	"time"

	"github.com/go-git/go-billy/v6/memfs"

	"github.com/go-git/go-git/v6/plumbing"
	"github.com/go-git/go-git/v6/plumbing/format/idxfile"
	"github.com/go-git/go-git/v6/plumbing/format/packfile"
)

func TestPreexistingC53PackfileRefDeltaCycle(t *testing.T) {
	self := plumbing.NewHash("aaaaaaaaaaaaaaaaaaaaaaaaaaaaaaaaaaaaaaaa")

	// delta: source size 1, target size 1, "insert 1 byte 'x'"
	delta := []byte{0x01, 0x01, 0x01, 'x'}
	var z bytes.Buffer
	zw := zlib.NewWriter(&z)
	_, _ = zw.Write(delta)
	_ = zw.Close()

	var pack bytes.Buffer
	pack.WriteString("PACK")
	_ = binary.Write(&pack, binary.BigEndian, uint32(2)) // version
	_ = binary.Write(&pack, binary.BigEndian, uint32(1)) // one object
	const entryOffset = 12
	pack.WriteByte(byte(plumbing.REFDeltaObject)<<4 | byte(len(delta))) // type 7, size 4
	pack.Write(self.Bytes())                                            // base id == own id
	pack.Write(z.Bytes())
	sum := sha1.Sum(pack.Bytes())
	pack.Write(sum[:])

	// The matching index: one entry, id `self` at the entry's offset.
	w := new(idxfile.Writer)
	_ = w.OnHeader(1)
	w.Add(self, entryOffset, 0)
	var packSum plumbing.Hash
	packSum.ResetBySize(sha1.Size)
	_, _ = packSum.Write(sum[:])
	_ = w.OnFooter(packSum)
	idx, err := w.Index()
	if err != nil {
		t.Fatal(err)
	}

	fs := memfs.New()
	f, err := fs.Create("cycle.pack")
	if err != nil {
		t.Fatal(err)
	}
	if _, err := f.Write(pack.Bytes()); err != nil {
		t.Fatal(err)
	}
	if _, err := f.Seek(0, 0); err != nil {
		t.Fatal(err)
	}

	p := packfile.NewPackfile(f, packfile.WithIdx(idx))
	defer p.Close()

	// Make the unbounded recursion fatal quickly instead of after 1 GB of stack.
	defer debug.SetMaxStack(debug.SetMaxStack(64 << 20))

	done := make(chan error, 1)
	go func() {
		_, err := p.Get(self)
		done <- err
	}()

	select {
	case err := <-done:
		if err == nil {
			t.Fatal("Get on a self-referencing REF_DELTA returned an object")
		}
		t.Logf("rejected: %v", err)
	case <-time.After(2 * time.Minute):
		t.Fatal("Get on a self-referencing REF_DELTA did not return")
	}
}
