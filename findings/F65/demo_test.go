// copy to: storage/filesystem/dotgit/
//
// F65 (property C16): a check-and-set refused for a reference that has only a
// packed value leaves the zero-byte loose file it created behind (it cannot
// unlink a file it holds the flock on); from then on Refs, CountLooseRefs and
// PackRefs failed with ErrEmptyRefFile although Ref still answered. Reported
// by a seeding sub-agent.
package dotgit

import (
	"strings"
	"testing"

	"github.com/go-git/go-billy/v6/osfs"
	"github.com/stretchr/testify/require"

	"github.com/go-git/go-git/v6/plumbing"
)

func TestF65_FailedCheckAndSetBreaksRefs(t *testing.T) {
	const (
		name = "refs/heads/foo"
		a    = "aaaaaaaaaaaaaaaaaaaaaaaaaaaaaaaaaaaaaaaa"
		b    = "bbbbbbbbbbbbbbbbbbbbbbbbbbbbbbbbbbbbbbbb"
	)
	dir := New(osfs.New(t.TempDir()))
	require.NoError(t, dir.Initialize())
	require.NoError(t, dir.SetRef(plumbing.NewReferenceFromStrings(name, a), nil))
	require.NoError(t, dir.PackRefs())
	_, err := dir.Refs()
	require.NoError(t, err)

	err = dir.SetRef(
		plumbing.NewReferenceFromStrings(name, b),
		plumbing.NewReferenceFromStrings(name, b), // not the current value
	)
	require.Error(t, err)

	got, err := dir.Ref(name)
	require.NoError(t, err)
	require.Equal(t, a, got.Hash().String())

	refs, err := dir.Refs()
	require.NoError(t, err, "Refs after a refused check-and-set")
	var names []string
	for _, r := range refs {
		names = append(names, r.Name().String()+"="+r.Hash().String())
	}
	require.Contains(t, strings.Join(names, " "), name+"="+a)
	_, err = dir.CountLooseRefs()
	require.NoError(t, err, "CountLooseRefs after a refused check-and-set")
	require.NoError(t, dir.PackRefs(), "PackRefs after a refused check-and-set")
	got, err = dir.Ref(name)
	require.NoError(t, err)
	require.Equal(t, a, got.Hash().String())
}
