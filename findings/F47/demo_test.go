// copy to: storage/filesystem/dotgit/
//
// F47 (open): defects of the UNCHANGED tree against property C16 (reference updates are
// atomic compare-and-swap operations; readers see the previous or the new
// value, never an absent, empty or stale packed one). Every test in this file
// FAILS on the unchanged tree.
package dotgit

import (
	"os"
	"path/filepath"
	"strings"
	"sync/atomic"
	"testing"

	"github.com/go-git/go-billy/v6"
	"github.com/go-git/go-billy/v6/osfs"

	"github.com/go-git/go-git/v6/plumbing"
)

// preC16FS lets a test run code at two points inside dotgit: right before a
// loose reference file is written (that is after it was truncated) and right
// before a file is unlinked.
type preC16FS struct {
	billy.Filesystem
	beforeWrite  func(name string)
	beforeRemove func(name string)
	busy         atomic.Bool
}

func (fs *preC16FS) OpenFile(name string, flag int, perm os.FileMode) (billy.File, error) {
	f, err := fs.Filesystem.OpenFile(name, flag, perm)
	if err != nil || !strings.HasPrefix(filepath.ToSlash(name), "refs/") {
		return f, err
	}
	return &preC16File{File: f, fs: fs, name: filepath.ToSlash(name)}, nil
}

func (fs *preC16FS) Remove(name string) error {
	if fs.beforeRemove != nil && fs.busy.CompareAndSwap(false, true) {
		fs.beforeRemove(filepath.ToSlash(name))
		fs.busy.Store(false)
	}
	return fs.Filesystem.Remove(name)
}

type preC16File struct {
	billy.File
	fs   *preC16FS
	name string
}

func (f *preC16File) Write(p []byte) (int, error) {
	if f.fs.beforeWrite != nil && f.fs.busy.CompareAndSwap(false, true) {
		f.fs.beforeWrite(f.name)
		f.fs.busy.Store(false)
	}
	return f.File.Write(p)
}
func (f *preC16File) Lock() error   { return f.File.(billy.Locker).Lock() }
func (f *preC16File) Unlock() error { return f.File.(billy.Locker).Unlock() }

var (
	preC16H0 = plumbing.NewHash("0000000000000000000000000000000000000aaa")
	preC16H1 = plumbing.NewHash("1111111111111111111111111111111111111111")
	preC16H2 = plumbing.NewHash("2222222222222222222222222222222222222222")
	preC16H3 = plumbing.NewHash("3333333333333333333333333333333333333333")
)

const preC16Name = plumbing.ReferenceName("refs/heads/a")

// (1a) A reader that runs while a check-and-set writer is between its
// Truncate(0) and its Write finds a zero-byte loose file, falls back to
// packed-refs and reports the reference as absent.
func TestF47_ReaderSeesAbsentRefDuringCAS(t *testing.T) {
	base := osfs.New(t.TempDir())
	wfs := &preC16FS{Filesystem: base}
	w, r := New(wfs), New(base)

	if err := w.SetRef(plumbing.NewHashReference(preC16Name, preC16H1), nil); err != nil {
		t.Fatal(err)
	}
	var seen *plumbing.Reference
	var seenErr error
	wfs.beforeWrite = func(string) { seen, seenErr = r.Ref(preC16Name) }
	if err := w.SetRef(plumbing.NewHashReference(preC16Name, preC16H2), plumbing.NewHashReference(preC16Name, preC16H1)); err != nil {
		t.Fatal(err)
	}
	if seenErr != nil {
		t.Fatalf("reader concurrent with CAS %s -> %s saw neither value: %v", preC16H1, preC16H2, seenErr)
	}
	if h := seen.Hash(); h != preC16H1 && h != preC16H2 {
		t.Fatalf("reader saw %s", h)
	}
}

// (1b) Same window, but an older value of the reference sits in packed-refs:
// the reader is served the stale packed value, which is neither the previous
// nor the new value of the reference.
func TestF47_ReaderSeesStalePackedRefDuringCAS(t *testing.T) {
	base := osfs.New(t.TempDir())
	wfs := &preC16FS{Filesystem: base}
	w, r := New(wfs), New(base)

	if err := w.SetRef(plumbing.NewHashReference(preC16Name, preC16H0), nil); err != nil {
		t.Fatal(err)
	}
	if err := w.PackRefs(); err != nil {
		t.Fatal(err)
	}
	if err := w.SetRef(plumbing.NewHashReference(preC16Name, preC16H1), plumbing.NewHashReference(preC16Name, preC16H0)); err != nil {
		t.Fatal(err)
	}
	var seen *plumbing.Reference
	var seenErr error
	wfs.beforeWrite = func(string) { seen, seenErr = r.Ref(preC16Name) }
	if err := w.SetRef(plumbing.NewHashReference(preC16Name, preC16H2), plumbing.NewHashReference(preC16Name, preC16H1)); err != nil {
		t.Fatal(err)
	}
	if seenErr != nil {
		t.Fatalf("reader: %v", seenErr)
	}
	if h := seen.Hash(); h != preC16H1 && h != preC16H2 {
		t.Fatalf("reader concurrent with CAS %s -> %s saw %s (the stale packed value)", preC16H1, preC16H2, h)
	}
}

