package transport

import (
	"testing"

	"github.com/go-git/go-git/v6/plumbing"
	"github.com/go-git/go-git/v6/plumbing/protocol/packp"
	"github.com/go-git/go-git/v6/storage/memory"
)

// Copy into plumbing/transport/. A client whose old value is stale must not
// move (or delete) the reference.
func TestF17StaleOldValue(t *testing.T) {
	st := memory.NewStorage()
	name := plumbing.ReferenceName("refs/heads/main")
	cur := plumbing.NewHash("1111111111111111111111111111111111111111")
	stale := plumbing.NewHash("2222222222222222222222222222222222222222")
	nw := plumbing.NewHash("3333333333333333333333333333333333333333")
	if err := st.SetReference(plumbing.NewHashReference(name, cur)); err != nil {
		t.Fatal(err)
	}
	for _, cmd := range []*packp.Command{{Name: name, Old: stale, New: nw}, {Name: name, Old: stale, New: plumbing.ZeroHash}} {
		req := &packp.UpdateRequests{Commands: []*packp.Command{cmd}}
		status := map[plumbing.ReferenceName]error{}
		var firstErr error
		updateReferences(st, req, status, &firstErr)
		ref, err := st.Reference(name)
		if err != nil || ref.Hash() != cur {
			t.Fatalf("reference changed by a command with a stale old value %s (action %v): now %v, %v", stale, cmd.Action(), ref, err)
		}
		if status[name] == nil {
			t.Fatalf("stale command reported as ok")
		}
	}
}
