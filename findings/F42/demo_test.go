// copy to: plumbing/format/packfile/ . Demonstrates F42 (C09): a pack stream cut after 8 header
// bytes was reported as ErrEmptyPackfile, which pack writers treat as "nothing was sent".
package packfile_test

import (
	"bytes"
	"testing"

	"github.com/go-git/go-git/v6/plumbing/format/packfile"
)

// A stream cut on a field boundary of the 12 byte pack header (after 8
// bytes; a cut inside a field gives io.ErrUnexpectedEOF and is fine) is reported as
// ErrEmptyPackfile ("nothing was sent"), which dotgit.PackWriter.Close
// deliberately swallows, instead of ErrMalformedPackfile.
func TestF42TruncatedHeaderReportedAsEmpty(t *testing.T) {
	pack := []byte{'P', 'A', 'C', 'K', 0, 0, 0, 2} // cut right before the object count
	_, err := packfile.NewParser(bytes.NewReader(pack)).Parse()
	t.Logf("err=%v", err)
	if err == packfile.ErrEmptyPackfile {
		t.Errorf("truncated pack header reported as ErrEmptyPackfile, which PackWriter treats as success")
	}
}
