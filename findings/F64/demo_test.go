// copy to: plumbing/transport/
//
// F64 (property C34): pkt-lines of every payload length up to 65516 bytes are
// read -- but the servers and the client handshakes peeked at the first packet
// through a default 4096-byte bufio.Reader, and PeekLine cannot look at more
// than the buffer holds: a request whose first line is longer (a long agent
// string, many capabilities, a long reference name) was refused with
// "bufio: buffer full". Reported by a seeding sub-agent.
package transport

import (
	"bytes"
	"context"
	"crypto/sha1"
	"io"
	"strings"
	"testing"

	"github.com/go-git/go-git/v6/plumbing"
	"github.com/go-git/go-git/v6/plumbing/protocol/packp"
	"github.com/go-git/go-git/v6/plumbing/protocol/capability"
	"github.com/go-git/go-git/v6/storage/memory"
	"github.com/go-git/go-git/v6/utils/ioutil"
)

func TestF64_ReceivePackFirstLineLongerThan4096(t *testing.T) {
	st := memory.NewStorage()
	blob := st.NewEncodedObject()
	blob.SetType(plumbing.BlobObject)
	w, err := blob.Writer()
	if err != nil {
		t.Fatal(err)
	}
	_, _ = w.Write([]byte("content\n"))
	_ = w.Close()
	id, err := st.SetEncodedObject(blob)
	if err != nil {
		t.Fatal(err)
	}

	for _, n := range []int{100, 5000, 60000} {
		caps := capability.List{}
		caps.Add(capability.ReportStatus)
		caps.Set(capability.Agent, "git/"+strings.Repeat("x", n))
		name := plumbing.ReferenceName("refs/heads/b" + strings.Repeat("y", 3))
		req := &packp.UpdateRequests{Capabilities: caps, Commands: []*packp.Command{{Name: name, Old: plumbing.ZeroHash, New: id}}}
		var buf bytes.Buffer
		if err := req.Encode(&buf); err != nil {
			t.Fatal(err)
		}
		hdr := []byte{'P', 'A', 'C', 'K', 0, 0, 0, 2, 0, 0, 0, 0}
		sum := sha1.Sum(hdr)
		buf.Write(hdr)
		buf.Write(sum[:])

		var out bytes.Buffer
		err := ReceivePack(context.Background(), st, io.NopCloser(&buf), ioutil.WriteNopCloser(&out),
			&ReceivePackRequest{StatelessRPC: true})
		if err != nil {
			t.Errorf("first line with a %d-byte agent: ReceivePack: %v", n, err)
			continue
		}
		if _, err := st.Reference(name); err != nil {
			t.Errorf("first line with a %d-byte agent: %s not created: %v (reply %q)", n, name, err, out.String())
		}
		_ = st.RemoveReference(name)
	}
}
