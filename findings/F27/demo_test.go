// copy to: plumbing/format/packfile/ . Demonstrates F27 (C06): after a copy
// command that seeks backwards in the base, ReaderFromDelta reopens the base
// reader but keeps its old position counter, so the next forward copy discards
// too few bytes and silently copies the wrong source range (nil error).
// PatchDelta (and git's patch_delta) give the right bytes.
package packfile

import (
	"bytes"
	"io"
	"testing"

	"github.com/go-git/go-git/v6/plumbing"
)

func TestF27ReaderFromDeltaBackwardSeek(t *testing.T) {
	src := make([]byte, 200)
	for i := range src {
		src[i] = byte(i)
	}
	// source size 200, target size 20; copy(off 90,len 10) copy(off 10,len 5) copy(off 120,len 5)
	delta := []byte{0xc8, 0x01, 0x14, 0x91, 0x5a, 0x0a, 0x91, 0x0a, 0x05, 0x91, 0x78, 0x05}
	want, err := PatchDelta(src, delta)
	if err != nil {
		t.Fatal(err)
	}
	base := &plumbing.MemoryObject{}
	base.SetType(plumbing.BlobObject)
	base.Write(src)
	rd, err := ReaderFromDelta(base, bytes.NewReader(delta))
	if err != nil {
		t.Fatal(err)
	}
	got, err := io.ReadAll(rd)
	if err != nil {
		t.Fatalf("ReaderFromDelta: %v", err)
	}
	if !bytes.Equal(got, want) {
		t.Fatalf("ReaderFromDelta produced %v, PatchDelta %v", got, want)
	}
}
