// copy to: plumbing/format/commitgraph/
// F49 (property C53): OpenChainIndex calls Close on a nil Index in both error
// paths of its loop: a commit-graph-chain naming a missing or malformed graph
// crashes the process. Reported by a seeding sub-agent.
package commitgraph_test

import (
	"testing"

	"github.com/go-git/go-billy/v6/memfs"
	"github.com/go-git/go-billy/v6/util"

	"github.com/go-git/go-git/v6/plumbing/format/commitgraph"
)

// OpenChainIndex (and therefore OpenChainOrFileIndex) dereferences a nil Index
// in its error paths: `_ = index.Close()` runs while `index` is still the nil
// interface (first graph of the chain cannot be opened) or has just been
// overwritten with the nil result of a failed OpenFileIndexWithParent. A
// commit-graph-chain file naming a graph that is absent or malformed therefore
// crashes the process instead of returning an error.

const f49ChainHash = "0123456789012345678901234567890123456789"

func f49OpenChain(t *testing.T, graph []byte) {
	t.Helper()

	fs := memfs.New()
	if err := util.WriteFile(fs, "objects/info/commit-graphs/commit-graph-chain",
		[]byte(f49ChainHash+"\n"), 0o644); err != nil {
		t.Fatal(err)
	}
	if graph != nil {
		if err := util.WriteFile(fs, "objects/info/commit-graphs/graph-"+f49ChainHash+".graph",
			graph, 0o644); err != nil {
			t.Fatal(err)
		}
	}

	defer func() {
		if r := recover(); r != nil {
			t.Fatalf("OpenChainIndex panicked instead of returning an error: %v", r)
		}
	}()

	idx, err := commitgraph.OpenChainIndex(fs)
	if err == nil {
		_ = idx.Close()
		t.Fatalf("expected an error")
	}
}

func TestF49_ChainNamesMissingGraph(t *testing.T) {
	f49OpenChain(t, nil)
}

func TestF49_ChainNamesMalformedGraph(t *testing.T) {
	f49OpenChain(t, []byte("CGPHjunkjunkjunk"))
}
