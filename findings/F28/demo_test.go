// copy to: plumbing/format/index/
//
// Reproduction of a defect that exists in the UNCHANGED tree (independent of
// patch.diff): resolveUndoDecoder.readEntry assigns the object names of a
// resolve-undo record by ranging over a Go map, so which stage receives
// which object name varies from one decode to the next.
package index

import (
	"bytes"
	"crypto"
	"encoding/hex"
	"testing"

	"github.com/stretchr/testify/require"
)

// reucIndexSHA1 is the .git/index git 2.39 wrote after a conflicting merge of
// file "f" was resolved with `git add f`. `git ls-files --resolve-undo` says:
//
//	100644 df967b96a579e45a18b8251732d16804b2e56a55 1	f
//	100644 ba2906d0666cf726c7eaadd2cd3db615dedfdf3a 2	f
//	100644 2299c37978265a95cbe835a4b0f0bbf15aad5549 3	f
const reucIndexSHA1Tail = "" +
	"54524545" + "00000006" + "002d3120300a" + // TREE, invalidated root
	"52455543" + "00000053" + // REUC, 0x53 bytes
	"6600" + "31303036343400" + "31303036343400" + "31303036343400" +
	"df967b96a579e45a18b8251732d16804b2e56a55" +
	"ba2906d0666cf726c7eaadd2cd3db615dedfdf3a" +
	"2299c37978265a95cbe835a4b0f0bbf15aad5549"

func TestF28ResolveUndoStageOrder(t *testing.T) {
	ext, err := hex.DecodeString(reucIndexSHA1Tail)
	require.NoError(t, err)

	// header: DIRC, version 2, zero entries; then the extensions; then checksum.
	body := append([]byte{'D', 'I', 'R', 'C', 0, 0, 0, 2, 0, 0, 0, 0}, ext...)
	h := crypto.SHA1.New()
	h.Write(body)
	raw := h.Sum(body)

	want := map[Stage]string{
		AncestorMode: "df967b96a579e45a18b8251732d16804b2e56a55",
		OurMode:      "ba2906d0666cf726c7eaadd2cd3db615dedfdf3a",
		TheirMode:    "2299c37978265a95cbe835a4b0f0bbf15aad5549",
	}

	bad := 0
	const rounds = 200
	for range rounds {
		idx := &Index{}
		require.NoError(t, NewDecoder(bytes.NewReader(raw), crypto.SHA1.New()).Decode(idx))
		require.NotNil(t, idx.ResolveUndo)
		require.Len(t, idx.ResolveUndo.Entries, 1)
		for s, w := range want {
			if idx.ResolveUndo.Entries[0].Stages[s].String() != w {
				bad++
				break
			}
		}
	}
	require.Zero(t, bad, "%d of %d decodes attributed an object name to the wrong stage", bad, rounds)
}
