// copy to: plumbing/format/index/
//
// F55 (property C12): the index encoder wrote entry.Hash.Bytes() as it came
// but padded the entry assuming the index's hash size. An entry whose id has
// another width (the zero value of plumbing.Hash is 20 bytes wide, so: any
// entry with an unset Hash in a SHA-256 index) made the whole file
// undecodable, and Encode reported no error. Reported by a seeding sub-agent.
package index

import (
	"bytes"
	"crypto"
	"testing"

	"github.com/go-git/go-git/v6/plumbing"
)

func TestF55_EntryIDHasTheIndexHashSize(t *testing.T) {
	// unset id in a SHA-256 index: written as the 32-byte null id
	idx := &Index{Version: 2, Entries: []*Entry{{Name: "a"}, {Name: "b"}}}
	var buf bytes.Buffer
	if err := NewEncoder(&buf, crypto.SHA256.New()).Encode(idx); err != nil {
		t.Fatal(err)
	}
	got := &Index{}
	if err := NewDecoder(bytes.NewReader(buf.Bytes()), crypto.SHA256.New()).Decode(got); err != nil {
		t.Fatalf("go-git cannot decode the index it wrote: %v", err)
	}
	if len(got.Entries) != 2 || got.Entries[0].Name != "a" || got.Entries[1].Name != "b" || !got.Entries[0].Hash.IsZero() {
		t.Fatalf("decoded %+v", got.Entries)
	}

	// a real 20-byte id in a SHA-256 index is refused
	idx = &Index{Version: 2, Entries: []*Entry{{Name: "a", Hash: plumbing.NewHash("1111111111111111111111111111111111111111")}}}
	buf.Reset()
	if err := NewEncoder(&buf, crypto.SHA256.New()).Encode(idx); err == nil {
		if derr := NewDecoder(bytes.NewReader(buf.Bytes()), crypto.SHA256.New()).Decode(&Index{}); derr != nil {
			t.Fatalf("Encode accepted a SHA-1 id in a SHA-256 index and wrote a file its decoder refuses: %v", derr)
		}
	}
}
