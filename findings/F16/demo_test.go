package git

// F16 (property C29): Worktree.Checkout moves HEAD (and, with Create, creates
// the branch) before Reset gets the chance to refuse because of local changes.
// A refused checkout therefore leaves HEAD on the target branch. Copy into
// /repo and run
//   go test -vet=off -count=1 -run TestF16 .

import (
	"testing"
	"time"

	"github.com/go-git/go-billy/v6/memfs"
	"github.com/go-git/go-billy/v6/util"

	"github.com/go-git/go-git/v6/plumbing"
	"github.com/go-git/go-git/v6/plumbing/object"
	"github.com/go-git/go-git/v6/storage/memory"
)

func TestF16RefusedCheckoutLeavesHEAD(t *testing.T) {
	fs := memfs.New()
	r, err := Init(memory.NewStorage(), WithWorkTree(fs))
	if err != nil {
		t.Fatal(err)
	}
	w, _ := r.Worktree()
	sig := &object.Signature{Name: "a", Email: "a@b", When: time.Now()}
	_ = util.WriteFile(fs, "a.txt", []byte("one\n"), 0o644)
	_, _ = w.Add("a.txt")
	c1, err := w.Commit("c1", &CommitOptions{Author: sig})
	if err != nil {
		t.Fatal(err)
	}
	if err := w.Checkout(&CheckoutOptions{Branch: "refs/heads/other", Create: true}); err != nil {
		t.Fatal(err)
	}
	_ = util.WriteFile(fs, "a.txt", []byte("two\n"), 0o644)
	_, _ = w.Add("a.txt")
	if _, err := w.Commit("c2", &CommitOptions{Author: sig}); err != nil {
		t.Fatal(err)
	}
	// back on the first branch, with a local unstaged change to a.txt
	first := plumbing.NewBranchReferenceName("first")
	if err := r.Storer.SetReference(plumbing.NewHashReference(first, c1)); err != nil {
		t.Fatal(err)
	}
	if err := w.Checkout(&CheckoutOptions{Branch: first, Force: true}); err != nil {
		t.Fatal(err)
	}
	_ = util.WriteFile(fs, "a.txt", []byte("local edit\n"), 0o644)

	before, _ := r.Storer.Reference(plumbing.HEAD)
	err = w.Checkout(&CheckoutOptions{Branch: "refs/heads/other"})
	if err == nil {
		t.Skip("checkout was not refused")
	}
	after, _ := r.Storer.Reference(plumbing.HEAD)
	if before.Target() != after.Target() || before.Hash() != after.Hash() {
		t.Errorf("checkout refused (%v) but HEAD moved from %s to %s", err, before.Target(), after.Target())
	}
}
