// copy to: storage/filesystem/ . Five C18 reproductions by a seeding sub-agent (prefix search clobbering the cached object list, a kept pack forgotten, a failed listing poisoning the object list, Reindex losing a concurrently published pack, a pack list built while a writer is open).
package filesystem_test

import (
	"bytes"
	"errors"
	"fmt"
	"io"
	gofs "io/fs"
	"sync"
	"testing"
	"time"

	"github.com/go-git/go-billy/v6"
	"github.com/go-git/go-billy/v6/memfs"

	"github.com/go-git/go-git/v6/plumbing"
	"github.com/go-git/go-git/v6/plumbing/cache"
	"github.com/go-git/go-git/v6/plumbing/format/packfile"
	"github.com/go-git/go-git/v6/storage/filesystem"
	"github.com/go-git/go-git/v6/storage/memory"
)

// c18Blob builds an in-memory blob with the given content.
func c18Blob(t *testing.T, content string) plumbing.EncodedObject {
	t.Helper()
	o := memory.NewStorage().NewEncodedObject()
	o.SetType(plumbing.BlobObject)
	w, err := o.Writer()
	if err != nil {
		t.Fatal(err)
	}
	if _, err := w.Write([]byte(content)); err != nil {
		t.Fatal(err)
	}
	if err := w.Close(); err != nil {
		t.Fatal(err)
	}
	return o
}

// TestF38_PrefixSearchClobbersObjectList: under ExclusiveAccess,
// DotGit.ObjectsWithPrefix returns a sub-slice of the cached, sorted object
// list, and ObjectStorage.HashesWithPrefix appends the packed matches to it.
// The append lands in the spare capacity of that sub-slice, i.e. on top of the
// next entries of the cached list, so a prefix search that finds a packed
// object makes an unrelated, successfully written loose object disappear from
// later listings / prefix searches / type iteration.
func TestF38_PrefixSearchClobbersObjectList(t *testing.T) {
	// Find two blobs sharing the first hash byte (loose "a", packed "p") and a
	// third one that sorts after them (loose "b").
	byFirst := map[byte]plumbing.EncodedObject{}
	var a, p, b plumbing.EncodedObject
	for i := 0; a == nil; i++ {
		o := c18Blob(t, fmt.Sprintf("c18-pre-%d", i))
		first := o.Hash().Bytes()[0]
		if first >= 0xf0 {
			continue
		}
		if prev, ok := byFirst[first]; ok {
			a, p = prev, o
			break
		}
		byFirst[first] = o
	}
	for i := 0; b == nil; i++ {
		o := c18Blob(t, fmt.Sprintf("c18-pre-b-%d", i))
		if o.Hash().Bytes()[0] > a.Hash().Bytes()[0] {
			b = o
		}
	}

	sto := filesystem.NewStorageWithOptions(memfs.New(), cache.NewObjectLRUDefault(),
		filesystem.Options{ExclusiveAccess: true})

	// p goes into a pack.
	stage := memory.NewStorage()
	if _, err := stage.SetEncodedObject(p); err != nil {
		t.Fatal(err)
	}
	var buf bytes.Buffer
	if _, err := packfile.NewEncoder(&buf, stage, false).Encode([]plumbing.Hash{p.Hash()}, 0); err != nil {
		t.Fatal(err)
	}
	pw, err := sto.PackfileWriter()
	if err != nil {
		t.Fatal(err)
	}
	if _, err := io.Copy(pw, &buf); err != nil {
		t.Fatal(err)
	}
	if err := pw.Close(); err != nil {
		t.Fatal(err)
	}

	// a and b are written loose; both writes return successfully.
	for _, o := range []plumbing.EncodedObject{a, b} {
		if _, err := sto.SetEncodedObject(o); err != nil {
			t.Fatal(err)
		}
	}

	bPrefix := b.Hash().Bytes()[:1]
	before, err := sto.HashesWithPrefix(bPrefix)
	if err != nil {
		t.Fatal(err)
	}
	if !containsHash(before, b.Hash()) {
		t.Fatalf("b not found by prefix before the interleaved search: %v", before)
	}

	// The interleaved read: a prefix search that matches loose a and packed p.
	got, err := sto.HashesWithPrefix(a.Hash().Bytes()[:1])
	if err != nil {
		t.Fatal(err)
	}
	if !containsHash(got, a.Hash()) || !containsHash(got, p.Hash()) {
		t.Fatalf("prefix search for a/p returned %v", got)
	}

	// b must still be visible to prefix search and listing.
	after, err := sto.HashesWithPrefix(bPrefix)
	if err != nil {
		t.Fatal(err)
	}
	if !containsHash(after, b.Hash()) {
		t.Errorf("loose object %s no longer found by prefix search after an unrelated prefix search; got %v", b.Hash(), after)
	}

	var listed []plumbing.Hash
	if err := sto.ForEachObjectHash(func(h plumbing.Hash) error {
		listed = append(listed, h)
		return nil
	}); err != nil {
		t.Fatal(err)
	}
	if !containsHash(listed, b.Hash()) {
		t.Errorf("loose object %s no longer listed by ForEachObjectHash; got %v", b.Hash(), listed)
	}

	iter, err := sto.IterEncodedObjects(plumbing.BlobObject)
	if err != nil {
		t.Fatal(err)
	}
	var iterated []plumbing.Hash
	if err := iter.ForEach(func(o plumbing.EncodedObject) error {
		iterated = append(iterated, o.Hash())
		return nil
	}); err != nil {
		t.Errorf("type iteration failed: %v", err)
	}
	if !containsHash(iterated, b.Hash()) {
		t.Errorf("loose object %s not returned by type iteration; got %v", b.Hash(), iterated)
	}
}

func containsHash(l []plumbing.Hash, h plumbing.Hash) bool {
	for _, x := range l {
		if x == h {
			return true
		}
	}
	return false
}

// c18WritePack writes a pack holding the given objects through the storage's
// PackfileWriter and returns after a successful Close.
func c18WritePack(t *testing.T, sto *filesystem.Storage, objs ...plumbing.EncodedObject) {
	t.Helper()
	stage := memory.NewStorage()
	var hs []plumbing.Hash
	for _, o := range objs {
		if _, err := stage.SetEncodedObject(o); err != nil {
			t.Fatal(err)
		}
		hs = append(hs, o.Hash())
	}
	var buf bytes.Buffer
	if _, err := packfile.NewEncoder(&buf, stage, false).Encode(hs, 0); err != nil {
		t.Fatal(err)
	}
	pw, err := sto.PackfileWriter()
	if err != nil {
		t.Fatal(err)
	}
	if _, err := io.Copy(pw, &buf); err != nil {
		t.Fatal(err)
	}
	if err := pw.Close(); err != nil {
		t.Fatal(err)
	}
}

// TestF38_KeptPackIsForgotten: DotGit.DeleteOldObjectPackAndIndex
// returns nil when the pack is newer than the cut-off and is therefore kept.
// ObjectStorage.DeleteOldObjectPackAndIndex takes the nil as "deleted" and
// drops the pack from its in-memory index, so the objects of a pack that is
// still on disk stop being visible on this storage.
func TestF38_KeptPackIsForgotten(t *testing.T) {
	sto := filesystem.NewStorageWithOptions(memfs.New(), cache.NewObjectLRUDefault(), filesystem.Options{})
	p := c18Blob(t, "c18 kept pack blob")
	c18WritePack(t, sto, p)

	if err := sto.HasEncodedObject(p.Hash()); err != nil {
		t.Fatalf("not visible right after the pack write: %v", err)
	}
	packs, err := sto.ObjectPacks()
	if err != nil || len(packs) != 1 {
		t.Fatalf("packs = %v, %v", packs, err)
	}

	// "delete packs older than one hour": ours is brand new, so it is kept.
	if err := sto.DeleteOldObjectPackAndIndex(packs[0], time.Now().Add(-time.Hour)); err != nil {
		t.Fatal(err)
	}
	after, err := sto.ObjectPacks()
	if err != nil || len(after) != 1 {
		t.Fatalf("the pack was expected to be kept on disk: %v, %v", after, err)
	}

	if err := sto.HasEncodedObject(p.Hash()); err != nil {
		t.Errorf("HasEncodedObject after a no-op DeleteOldObjectPackAndIndex: %v", err)
	}
	if _, err := sto.EncodedObject(plumbing.AnyObject, p.Hash()); err != nil {
		t.Errorf("EncodedObject after a no-op DeleteOldObjectPackAndIndex: %v", err)
	}
	if _, err := sto.EncodedObjectSize(p.Hash()); err != nil {
		t.Errorf("EncodedObjectSize after a no-op DeleteOldObjectPackAndIndex: %v", err)
	}
}

// c18HookFS lets a test intercept ReadDir.
type c18HookFS struct {
	billy.Filesystem
	readDir func(path string, real func() ([]gofs.DirEntry, error)) ([]gofs.DirEntry, error)
}

func (f *c18HookFS) ReadDir(path string) ([]gofs.DirEntry, error) {
	real := func() ([]gofs.DirEntry, error) { return f.Filesystem.ReadDir(path) }
	if f.readDir != nil {
		return f.readDir(path, real)
	}
	return real()
}

// TestF38_FailedListingPoisonsObjectList: under ExclusiveAccess,
// genObjectList installs objectMap before it is completely filled. If the
// directory walk fails half way (EMFILE, EIO, ...) the error is reported to
// that caller, but the partial map stays and every later lookup trusts it: an
// object that was written successfully is reported as missing until the next
// write drops the list.
func TestF38_FailedListingPoisonsObjectList(t *testing.T) {
	fs := &c18HookFS{Filesystem: memfs.New()}
	sto := filesystem.NewStorageWithOptions(fs, cache.NewObjectLRUDefault(),
		filesystem.Options{ExclusiveAccess: true})

	blob := c18Blob(t, "c18 poisoned list blob")
	if _, err := sto.SetEncodedObject(blob); err != nil {
		t.Fatal(err)
	}

	// One transient failure while listing the object's fan-out directory.
	failed := false
	fanout := fs.Join("objects", blob.Hash().String()[:2])
	fs.readDir = func(path string, real func() ([]gofs.DirEntry, error)) ([]gofs.DirEntry, error) {
		if !failed && path == fanout {
			failed = true
			return nil, errors.New("transient: too many open files")
		}
		return real()
	}
	if err := sto.ForEachObjectHash(func(plumbing.Hash) error { return nil }); err == nil {
		t.Fatal("the injected ReadDir failure was expected to surface")
	}
	if !failed {
		t.Fatal("fault was not injected")
	}

	// The fault is gone; the object is on disk and its write had succeeded.
	if err := sto.HasEncodedObject(blob.Hash()); err != nil {
		t.Errorf("HasEncodedObject after a failed listing: %v", err)
	}
	if _, err := sto.EncodedObject(plumbing.BlobObject, blob.Hash()); err != nil {
		t.Errorf("EncodedObject after a failed listing: %v", err)
	}
	hs, err := sto.HashesWithPrefix(blob.Hash().Bytes()[:2])
	if err != nil {
		t.Fatal(err)
	}
	if !containsHash(hs, blob.Hash()) {
		t.Errorf("prefix search after a failed listing does not return the object: %v", hs)
	}
}

// TestF38_ReindexLosesConcurrentPack: Reindex scans the pack
// directory, then swaps the result in. A pack writer that closes between the
// scan and the swap publishes its index through Notify into the map that
// Reindex is about to replace, so the pack write returns successfully and its
// objects are then invisible on this storage (until another Reindex).
func TestF38_ReindexLosesConcurrentPack(t *testing.T) {
	fs := &c18HookFS{Filesystem: memfs.New()}
	sto := filesystem.NewStorageWithOptions(fs, cache.NewObjectLRUDefault(), filesystem.Options{})

	// An unrelated first pack, so the pack directory exists and is scanned.
	c18WritePack(t, sto, c18Blob(t, "c18 reindex first pack"))

	p := c18Blob(t, "c18 reindex second pack")
	stage := memory.NewStorage()
	if _, err := stage.SetEncodedObject(p); err != nil {
		t.Fatal(err)
	}
	var buf bytes.Buffer
	if _, err := packfile.NewEncoder(&buf, stage, false).Encode([]plumbing.Hash{p.Hash()}, 0); err != nil {
		t.Fatal(err)
	}
	pw, err := sto.PackfileWriter()
	if err != nil {
		t.Fatal(err)
	}
	if _, err := io.Copy(pw, &buf); err != nil {
		t.Fatal(err)
	}

	scanned := make(chan struct{})
	proceed := make(chan struct{})
	packDir := fs.Join("objects", "pack")
	var once sync.Once
	fs.readDir = func(path string, real func() ([]gofs.DirEntry, error)) ([]gofs.DirEntry, error) {
		entries, err := real()
		if path == packDir {
			once.Do(func() {
				close(scanned)
				<-proceed
			})
		}
		return entries, err
	}

	done := make(chan error, 1)
	go func() { done <- sto.Reindex() }()

	<-scanned // Reindex has listed the pack directory: the new pack is not there yet.
	if err := pw.Close(); err != nil { // successful pack write, Notify publishes the index
		t.Fatal(err)
	}
	close(proceed)
	if err := <-done; err != nil {
		t.Fatal(err)
	}

	if err := sto.HasEncodedObject(p.Hash()); err != nil {
		t.Errorf("HasEncodedObject after successful pack write: %v", err)
	}
	if _, err := sto.EncodedObject(plumbing.BlobObject, p.Hash()); err != nil {
		t.Errorf("EncodedObject after successful pack write: %v", err)
	}
}

// TestF38_PackListBuiltWhileWriterOpen (probably the already known
// cleanPackList finding): under ExclusiveAccess NewObjectPack drops the pack
// list only when the writer is created. A listing made while the writer is
// open caches a list without the new pack and nothing drops it on Close, so
// has() answers yes from the Notify-published index while get/size/iteration
// fail with "packfile not found".
func TestF38_PackListBuiltWhileWriterOpen(t *testing.T) {
	sto := filesystem.NewStorageWithOptions(memfs.New(), cache.NewObjectLRUDefault(),
		filesystem.Options{ExclusiveAccess: true})
	c18WritePack(t, sto, c18Blob(t, "c18 packlist first pack"))

	p := c18Blob(t, "c18 packlist second pack")
	stage := memory.NewStorage()
	if _, err := stage.SetEncodedObject(p); err != nil {
		t.Fatal(err)
	}
	var buf bytes.Buffer
	if _, err := packfile.NewEncoder(&buf, stage, false).Encode([]plumbing.Hash{p.Hash()}, 0); err != nil {
		t.Fatal(err)
	}
	pw, err := sto.PackfileWriter()
	if err != nil {
		t.Fatal(err)
	}
	if _, err := io.Copy(pw, &buf); err != nil {
		t.Fatal(err)
	}
	if _, err := sto.ObjectPacks(); err != nil { // interleaved listing
		t.Fatal(err)
	}
	if err := pw.Close(); err != nil {
		t.Fatal(err)
	}

	if err := sto.HasEncodedObject(p.Hash()); err != nil {
		t.Errorf("HasEncodedObject: %v", err)
	}
	if _, err := sto.EncodedObject(plumbing.BlobObject, p.Hash()); err != nil {
		t.Errorf("EncodedObject: %v", err)
	}
	if _, err := sto.EncodedObjectSize(p.Hash()); err != nil {
		t.Errorf("EncodedObjectSize: %v", err)
	}
	packs, err := sto.ObjectPacks()
	if err != nil {
		t.Fatal(err)
	}
	if len(packs) != 2 {
		t.Errorf("ObjectPacks lists %d packs, want 2", len(packs))
	}
}
