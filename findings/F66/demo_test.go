// copy to: storage/filesystem/
//
// F66 (property C18): a loose object of a SHA-256 repository was not found by a
// prefix search with a prefix longer than 20 bytes -- a full id included:
// ObjectsWithPrefix compared the prefix length with the SHA-1 size. Reported by
// a seeding sub-agent.
package filesystem

import (
	"testing"

	"github.com/go-git/go-billy/v6/memfs"

	"github.com/go-git/go-git/v6/plumbing"
	"github.com/go-git/go-git/v6/plumbing/cache"
	formatcfg "github.com/go-git/go-git/v6/plumbing/format/config"
)

// A loose object of a SHA-256 repository is not found by a prefix search whose
// prefix is longer than 20 bytes (the SHA-1 size): DotGit.ObjectsWithPrefix
// compares the prefix length with plumbing.ZeroHash.Size(), which is the SHA-1
// size, and answers "nothing" for anything longer. The same object in a pack
// is found, and so is the loose object with a prefix of 20 bytes or fewer.
func TestF66_SHA256LongPrefixMissesLooseObject(t *testing.T) {
	for _, exclusive := range []bool{false, true} {
		fs := memfs.New()
		o := NewStorageWithOptions(fs, cache.NewObjectLRUDefault(),
			Options{ObjectFormat: formatcfg.SHA256, ExclusiveAccess: exclusive})
		if err := o.Init(); err != nil {
			t.Fatal(err)
		}

		obj := o.NewEncodedObject()
		obj.SetType(plumbing.BlobObject)
		w, _ := obj.Writer()
		_, _ = w.Write([]byte("hello sha256\n"))
		_ = w.Close()

		h, err := o.SetEncodedObject(obj)
		if err != nil {
			t.Fatal(err)
		}
		if h.Size() != 32 {
			t.Fatalf("not a sha256 id: %s", h)
		}
		if err := o.HasEncodedObject(h); err != nil {
			t.Fatalf("written object not there: %v", err)
		}

		for _, n := range []int{1, 20, 21, 32} {
			got, err := o.HashesWithPrefix(h.Bytes()[:n])
			if err != nil {
				t.Fatal(err)
			}
			found := false
			for _, g := range got {
				if g == h {
					found = true
				}
			}
			if !found {
				t.Errorf("exclusive=%v: prefix of %d bytes of %s: object written and readable, but the prefix search returned %v", exclusive, n, h, got)
			}
		}
	}
}
