// copy to: plumbing/format/idxfile/
//
// F61 (property C10): the in-memory pack index built object ids from the rest
// of the fanout bucket instead of from one name: behind the 20 significant
// bytes of a SHA-1 id came the first 12 bytes of the next name. Reported by a
// seeding sub-agent.

package idxfile_test

import (
	"bytes"
	"crypto/sha1"
	"io"
	"testing"

	"github.com/go-git/go-git/v6/plumbing"
	"github.com/go-git/go-git/v6/plumbing/format/idxfile"
)

type f61ReaderAt struct{ *bytes.Reader }

func (f61ReaderAt) Close() error { return nil }

// TestF61_MemoryIndexIDsCarryNeighbourBytes: on the UNCHANGED tree,
// a SHA-1 MemoryIndex hands out object IDs (from FindHash and from Entries /
// EntriesByOffset) whose backing array holds bytes of the NEXT name of the
// fanout bucket behind the 20 significant bytes. Such an ID prints like the
// right one but is neither == nor Equal() to it, and it is a different map
// key. The lazy reader (and the prefix iterator of the very same MemoryIndex)
// return clean IDs, so the implementations do not agree with each other nor
// with a map keyed by the IDs that were added.
func TestF61_MemoryIndexIDsCarryNeighbourBytes(t *testing.T) {
	ids := []plumbing.Hash{
		plumbing.NewHash("1100000000000000000000000000000000000001"),
		plumbing.NewHash("11000000000000000000000000000000000000ff"), // same bucket as the first
		plumbing.NewHash("7f00000000000000000000000000000000000003"),
	}
	offs := []uint64{3000, 12, 4000}
	packSum := plumbing.NewHash("00000000000000000000000000000000000000ee")

	w := &idxfile.Writer{}
	if err := w.OnHeader(uint32(len(ids))); err != nil {
		t.Fatal(err)
	}
	model := map[plumbing.Hash]uint64{}
	for i, h := range ids {
		w.Add(h, offs[i], uint32(i))
		model[h] = offs[i]
	}
	if err := w.OnFooter(packSum); err != nil {
		t.Fatal(err)
	}
	written, err := w.Index()
	if err != nil {
		t.Fatal(err)
	}

	// Round-trip through the encoder and decoder: the index "go-git writes
	// decodes back".
	var idxBuf bytes.Buffer
	if err := idxfile.Encode(&idxBuf, sha1.New(), written); err != nil {
		t.Fatal(err)
	}
	mem := idxfile.NewMemoryIndex(20)
	if err := idxfile.NewDecoder(idxfile.FromBytes(idxBuf.Bytes()), sha1.New()).Decode(mem); err != nil {
		t.Fatal(err)
	}

	// A lazy reader over the same bytes (rev: by-offset order is 12, 3000,
	// 4000, i.e. idx positions 1, 0, 2).
	rev := []byte{'R', 'I', 'D', 'X', 0, 0, 0, 1, 0, 0, 0, 1, 0, 0, 0, 1, 0, 0, 0, 0, 0, 0, 0, 2}
	rev = append(rev, make([]byte, 40)...)
	op := func(b []byte) func() (idxfile.ReadAtCloser, error) {
		return func() (idxfile.ReadAtCloser, error) { return f61ReaderAt{bytes.NewReader(b)}, nil }
	}
	lazy, err := idxfile.NewLazyIndex(op(idxBuf.Bytes()), op(rev), packSum)
	if err != nil {
		t.Fatal(err)
	}
	defer lazy.Close()

	for i, want := range ids {
		for name, x := range map[string]idxfile.Index{"MemoryIndex": mem, "LazyIndex": lazy} {
			got, err := x.FindHash(int64(offs[i]))
			if err != nil {
				t.Errorf("%s.FindHash(%d): %v", name, offs[i], err)
				continue
			}
			if got != want || !got.Equal(want) {
				t.Errorf("%s.FindHash(%d) = %s which prints like %s but ==:%v Equal:%v (raw %#v)",
					name, offs[i], got, want, got == want, got.Equal(want), got)
			}
			if _, ok := model[got]; !ok {
				t.Errorf("%s.FindHash(%d) = %s is not a key of the map model", name, offs[i], got)
			}
		}
	}

	for name, x := range map[string]idxfile.Index{"MemoryIndex": mem, "LazyIndex": lazy} {
		it, err := x.Entries()
		if err != nil {
			t.Fatal(err)
		}
		for {
			e, err := it.Next()
			if err == io.EOF {
				break
			}
			if err != nil {
				t.Fatal(err)
			}
			if off, ok := model[e.Hash]; !ok || off != e.Offset {
				t.Errorf("%s.Entries yields %s @%d, which is not a key of the map model", name, e.Hash, e.Offset)
			}
		}
		it.Close()
	}
}

