// copy to: storage/filesystem/dotgit/ . Six C16 reproductions by a seeding sub-agent; F44 is TestF44_SymbolicCASIgnoresTarget (check-and-set on symbolic references compared only the id).
//
// Defects of the UNCHANGED tree against property C16 (reference updates are
// atomic compare-and-swap operations; readers see the previous or the new
// value, never an absent, empty or stale packed one). Every test in this file
// FAILS on the unchanged tree.
package dotgit

import (
	"errors"
	"os"
	"path/filepath"
	"strings"
	"sync/atomic"
	"testing"

	"github.com/go-git/go-billy/v6"
	"github.com/go-git/go-billy/v6/osfs"

	"github.com/go-git/go-git/v6/plumbing"
)

// preC16FS lets a test run code at two points inside dotgit: right before a
// loose reference file is written (that is after it was truncated) and right
// before a file is unlinked.
type preC16FS struct {
	billy.Filesystem
	beforeWrite  func(name string)
	beforeRemove func(name string)
	busy         atomic.Bool
}

func (fs *preC16FS) OpenFile(name string, flag int, perm os.FileMode) (billy.File, error) {
	f, err := fs.Filesystem.OpenFile(name, flag, perm)
	if err != nil || !strings.HasPrefix(filepath.ToSlash(name), "refs/") {
		return f, err
	}
	return &preC16File{File: f, fs: fs, name: filepath.ToSlash(name)}, nil
}

func (fs *preC16FS) Remove(name string) error {
	if fs.beforeRemove != nil && fs.busy.CompareAndSwap(false, true) {
		fs.beforeRemove(filepath.ToSlash(name))
		fs.busy.Store(false)
	}
	return fs.Filesystem.Remove(name)
}

type preC16File struct {
	billy.File
	fs   *preC16FS
	name string
}

func (f *preC16File) Write(p []byte) (int, error) {
	if f.fs.beforeWrite != nil && f.fs.busy.CompareAndSwap(false, true) {
		f.fs.beforeWrite(f.name)
		f.fs.busy.Store(false)
	}
	return f.File.Write(p)
}
func (f *preC16File) Lock() error   { return f.File.(billy.Locker).Lock() }
func (f *preC16File) Unlock() error { return f.File.(billy.Locker).Unlock() }

var (
	preC16H0 = plumbing.NewHash("0000000000000000000000000000000000000aaa")
	preC16H1 = plumbing.NewHash("1111111111111111111111111111111111111111")
	preC16H2 = plumbing.NewHash("2222222222222222222222222222222222222222")
	preC16H3 = plumbing.NewHash("3333333333333333333333333333333333333333")
)

const preC16Name = plumbing.ReferenceName("refs/heads/a")

// (1a) A reader that runs while a check-and-set writer is between its
// Truncate(0) and its Write finds a zero-byte loose file, falls back to
// packed-refs and reports the reference as absent.
func TestF44_ReaderSeesAbsentRefDuringCAS(t *testing.T) {
	base := osfs.New(t.TempDir())
	wfs := &preC16FS{Filesystem: base}
	w, r := New(wfs), New(base)

	if err := w.SetRef(plumbing.NewHashReference(preC16Name, preC16H1), nil); err != nil {
		t.Fatal(err)
	}
	var seen *plumbing.Reference
	var seenErr error
	wfs.beforeWrite = func(string) { seen, seenErr = r.Ref(preC16Name) }
	if err := w.SetRef(plumbing.NewHashReference(preC16Name, preC16H2), plumbing.NewHashReference(preC16Name, preC16H1)); err != nil {
		t.Fatal(err)
	}
	if seenErr != nil {
		t.Fatalf("reader concurrent with CAS %s -> %s saw neither value: %v", preC16H1, preC16H2, seenErr)
	}
	if h := seen.Hash(); h != preC16H1 && h != preC16H2 {
		t.Fatalf("reader saw %s", h)
	}
}

// (1b) Same window, but an older value of the reference sits in packed-refs:
// the reader is served the stale packed value, which is neither the previous
// nor the new value of the reference.
func TestF44_ReaderSeesStalePackedRefDuringCAS(t *testing.T) {
	base := osfs.New(t.TempDir())
	wfs := &preC16FS{Filesystem: base}
	w, r := New(wfs), New(base)

	if err := w.SetRef(plumbing.NewHashReference(preC16Name, preC16H0), nil); err != nil {
		t.Fatal(err)
	}
	if err := w.PackRefs(); err != nil {
		t.Fatal(err)
	}
	if err := w.SetRef(plumbing.NewHashReference(preC16Name, preC16H1), plumbing.NewHashReference(preC16Name, preC16H0)); err != nil {
		t.Fatal(err)
	}
	var seen *plumbing.Reference
	var seenErr error
	wfs.beforeWrite = func(string) { seen, seenErr = r.Ref(preC16Name) }
	if err := w.SetRef(plumbing.NewHashReference(preC16Name, preC16H2), plumbing.NewHashReference(preC16Name, preC16H1)); err != nil {
		t.Fatal(err)
	}
	if seenErr != nil {
		t.Fatalf("reader: %v", seenErr)
	}
	if h := seen.Hash(); h != preC16H1 && h != preC16H2 {
		t.Fatalf("reader concurrent with CAS %s -> %s saw %s (the stale packed value)", preC16H1, preC16H2, h)
	}
}

// (1c) The unconditional SetRef opens the file with O_TRUNC, i.e. it empties
// the reference before it even holds the lock. A check-and-set writer that
// holds the lock at that moment is not protected: a third party reading in
// that window sees the reference absent. Shown here with the simplest
// schedule, a reader in the window of the unconditional writer.
func TestF44_ReaderSeesAbsentRefDuringPlainSet(t *testing.T) {
	base := osfs.New(t.TempDir())
	wfs := &preC16FS{Filesystem: base}
	w, r := New(wfs), New(base)

	if err := w.SetRef(plumbing.NewHashReference(preC16Name, preC16H1), nil); err != nil {
		t.Fatal(err)
	}
	var seenErr error
	wfs.beforeWrite = func(string) { _, seenErr = r.Ref(preC16Name) }
	if err := w.SetRef(plumbing.NewHashReference(preC16Name, preC16H2), nil); err != nil {
		t.Fatal(err)
	}
	if seenErr != nil {
		t.Fatalf("reader concurrent with SetRef saw neither value: %v", seenErr)
	}
}

// (2) Check-and-set compares only Hash(). Two symbolic references both have
// the zero hash, so a check-and-set whose expected value is "ref: X" succeeds
// although the stored value is "ref: Y".
func TestF44_SymbolicCASIgnoresTarget(t *testing.T) {
	d := New(osfs.New(t.TempDir()))

	cur := plumbing.NewSymbolicReference(plumbing.HEAD, "refs/heads/current")
	if err := d.SetRef(cur, nil); err != nil {
		t.Fatal(err)
	}
	expected := plumbing.NewSymbolicReference(plumbing.HEAD, "refs/heads/something-else")
	next := plumbing.NewSymbolicReference(plumbing.HEAD, "refs/heads/next")
	err := d.SetRef(next, expected)
	if err == nil {
		got, _ := d.Ref(plumbing.HEAD)
		t.Fatalf("CAS expecting HEAD -> %s succeeded although HEAD -> %s; HEAD is now %s",
			expected.Target(), cur.Target(), got.Target())
	}
}

// (3) PackRefs unlinks the loose file of every reference it packed without
// looking at it again. A check-and-set that succeeds between PackRefs reading
// the loose reference and unlinking it is lost: the reference falls back to
// the value that went into packed-refs.
func TestF44_PackRefsLosesSuccessfulCAS(t *testing.T) {
	base := osfs.New(t.TempDir())
	wfs := &preC16FS{Filesystem: base}
	packer, writer := New(wfs), New(base)

	if err := writer.SetRef(plumbing.NewHashReference(preC16Name, preC16H1), nil); err != nil {
		t.Fatal(err)
	}
	var casErr error
	did := false
	wfs.beforeRemove = func(name string) {
		if name != preC16Name.String() {
			return
		}
		did = true
		casErr = writer.SetRef(plumbing.NewHashReference(preC16Name, preC16H2), plumbing.NewHashReference(preC16Name, preC16H1))
	}
	if err := packer.PackRefs(); err != nil {
		t.Fatal(err)
	}
	if !did {
		t.Fatal("hook did not run")
	}
	if casErr != nil {
		t.Skipf("CAS was refused, nothing lost: %v", casErr)
	}
	got, err := writer.Ref(preC16Name)
	if err != nil {
		t.Fatalf("after a successful CAS %s -> %s the reference is gone: %v", preC16H1, preC16H2, err)
	}
	if got.Hash() != preC16H2 {
		t.Fatalf("successful CAS %s -> %s was lost, reference is %s", preC16H1, preC16H2, got.Hash())
	}
}

// (4) A check-and-set on a reference that lives only in packed-refs creates
// the loose file (O_CREATE) before it checks. When the check fails the
// zero-byte file stays behind, and from then on every listing of references
// (Refs, PackRefs, CountLooseRefs) fails with ErrEmptyRefFile.
func TestF44_FailedCASLeavesEmptyLooseRef(t *testing.T) {
	d := New(osfs.New(t.TempDir()))

	if err := d.SetRef(plumbing.NewHashReference(preC16Name, preC16H1), nil); err != nil {
		t.Fatal(err)
	}
	if err := d.PackRefs(); err != nil {
		t.Fatal(err)
	}
	err := d.SetRef(plumbing.NewHashReference(preC16Name, preC16H3), plumbing.NewHashReference(preC16Name, preC16H2))
	if err == nil {
		t.Fatal("CAS with a wrong expected value succeeded")
	}
	if _, err := d.Refs(); err != nil {
		t.Errorf("Refs() after a refused CAS: %v (ErrEmptyRefFile: %v)", err, errors.Is(err, ErrEmptyRefFile))
	}
	if err := d.PackRefs(); err != nil {
		t.Errorf("PackRefs() after a refused CAS: %v", err)
	}
}
