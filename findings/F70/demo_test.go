// copy to: plumbing/format/idxfile/
package idxfile_test

import (
	"bytes"
	"crypto"
	"encoding/binary"
	iofs "io/fs"
	"testing"
	"time"

	"github.com/go-git/go-git/v6/plumbing"
	"github.com/go-git/go-git/v6/plumbing/format/idxfile"
	"github.com/go-git/go-git/v6/plumbing/hash"
)

type preC10jbInput struct {
	*bytes.Reader
	size int64
}

func (b preC10jbInput) Stat() (iofs.FileInfo, error) { return preC10jbInfo(b.size), nil }

type preC10jbInfo int64

func (i preC10jbInfo) Name() string        { return "" }
func (i preC10jbInfo) Size() int64         { return int64(i) }
func (i preC10jbInfo) Mode() iofs.FileMode { return 0 }
func (i preC10jbInfo) ModTime() time.Time  { return time.Time{} }
func (i preC10jbInfo) IsDir() bool         { return false }
func (i preC10jbInfo) Sys() any            { return nil }

type preC10jbRA struct{ *bytes.Reader }

func (preC10jbRA) Close() error { return nil }

// An entry set in which EVERY offset needs a 64-bit slot (the smallest case:
// one entry at offset 2^31). go-git's Writer and Encoder produce an idx with
// nr slots in the 64-bit table; go-git's Decoder then refuses those bytes
// because validateIdxV2Size caps the file at minSize + (nr-1)*8 (canonical
// git's assumption that the first object of a pack sits at offset 12), while
// the LazyIndex over the very same bytes accepts them and answers. So "the
// index go-git writes decodes back" fails for such a set, and the in-memory
// and lazy readers disagree about whether the file is well formed.
func TestPreexistingC10jAllOffsets64bit(t *testing.T) {
	raw := make([]byte, 20)
	raw[0], raw[19] = 0x42, 0x5a
	id, _ := plumbing.FromBytes(raw)
	const off = uint64(1) << 31

	packSum := make([]byte, 20)
	packSum[0] = 0xaa
	packHash, _ := plumbing.FromBytes(packSum)

	w := new(idxfile.Writer)
	if err := w.OnHeader(1); err != nil {
		t.Fatal(err)
	}
	w.Add(id, off, 7)
	if err := w.OnFooter(packHash); err != nil {
		t.Fatal(err)
	}
	mem, err := w.Index()
	if err != nil {
		t.Fatal(err)
	}
	if got, err := mem.FindOffset(id); err != nil || uint64(got) != off {
		t.Fatalf("writer's own index: FindOffset = %d, %v", got, err)
	}
	var buf bytes.Buffer
	if err := idxfile.Encode(&buf, hash.New(crypto.SHA1), mem); err != nil {
		t.Fatal(err)
	}
	idx := buf.Bytes()

	// The lazy reader takes the bytes and answers correctly.
	var rev bytes.Buffer
	rev.WriteString("RIDX")
	_ = binary.Write(&rev, binary.BigEndian, uint32(1))
	_ = binary.Write(&rev, binary.BigEndian, uint32(1))
	_ = binary.Write(&rev, binary.BigEndian, uint32(0))
	rev.Write(packSum)
	rh := hash.New(crypto.SHA1)
	rh.Write(rev.Bytes())
	rev.Write(rh.Sum(nil))
	lazy, err := idxfile.NewLazyIndex(
		func() (idxfile.ReadAtCloser, error) { return preC10jbRA{bytes.NewReader(idx)}, nil },
		func() (idxfile.ReadAtCloser, error) { return preC10jbRA{bytes.NewReader(rev.Bytes())}, nil },
		packHash)
	if err != nil {
		t.Fatalf("lazy: %v", err)
	}
	defer lazy.Close()
	lazyOff, lazyErr := lazy.FindOffset(id)

	// The in-memory reader must decode what go-git wrote.
	dec := idxfile.NewMemoryIndex(20)
	err = idxfile.NewDecoder(preC10jbInput{bytes.NewReader(idx), int64(len(idx))}, hash.New(crypto.SHA1)).Decode(dec)
	if err != nil {
		t.Fatalf("idx written by go-git for {(%s, 2^31)} does not decode back: %v (lazy reader over the same bytes: FindOffset = %d, %v)",
			id, err, lazyOff, lazyErr)
	}
}
