// copy to: . (repository root; external test package git_test). Demonstrates F35 (C01): worktree
// file ids are computed with SHA-1 also in SHA-256 repositories.
package git_test

import (
	"os"
	"os/exec"
	"path/filepath"
	"testing"
	"time"


	git "github.com/go-git/go-git/v6"
	formatcfg "github.com/go-git/go-git/v6/plumbing/format/config"
	"github.com/go-git/go-git/v6/plumbing/object"
)

// TestF35SHA256WorktreeHashesAreSHA1: worktree file ids used by
// Status are computed by utils/merkletrie/filesystem with a hard-coded SHA-1
// hasher, so in a SHA-256 repository a committed, untouched file never
// compares equal to its index entry once the stat shortcut cannot be used.
func TestF35SHA256WorktreeHashesAreSHA1(t *testing.T) {
	dir := t.TempDir()
	r, err := git.PlainInit(dir, false, git.WithObjectFormat(formatcfg.SHA256))
	if err != nil {
		t.Fatal(err)
	}
	defer func() { _ = r.Close() }()

	if err := os.WriteFile(filepath.Join(dir, "a.txt"), []byte("content\n"), 0o644); err != nil {
		t.Fatal(err)
	}
	w, err := r.Worktree()
	if err != nil {
		t.Fatal(err)
	}
	if _, err := w.Add("a.txt"); err != nil {
		t.Fatal(err)
	}
	if _, err := w.Commit("c", &git.CommitOptions{Author: &object.Signature{Name: "a", Email: "a@b", When: time.Now()}}); err != nil {
		t.Fatal(err)
	}
	// Defeat the stat shortcut: same content, new mtime.
	future := time.Now().Add(2 * time.Hour)
	if err := os.Chtimes(filepath.Join(dir, "a.txt"), future, future); err != nil {
		t.Fatal(err)
	}
	s, err := w.Status()
	if err != nil {
		t.Fatal(err)
	}
	if !s.IsClean() {
		t.Errorf("status of an unmodified file in a SHA-256 repository is not clean:\n%s", s)
	}
	if gitBin, err := exec.LookPath("git"); err == nil {
		out, _ := exec.Command(gitBin, "-C", dir, "status", "--porcelain").CombinedOutput()
		t.Logf("git status --porcelain: %q", out)
	}
}
