//go:build linux || darwin

package mmap

import (
	"encoding/binary"
	"os"
	"path/filepath"
	"testing"

	"github.com/go-git/go-billy/v6/osfs"
	"github.com/go-git/go-git/v6/plumbing"
)

// Copy into storage/filesystem/mmap/. Each sub-test fails (panic or wrong
// answer) before the corresponding fix commit and passes after it.

// F5: a pack offset >= MaxInt64 read from the idx wrapped negative in
// int(offset+1) and s.packMmap[offset] panicked.
func TestF5HugeOffsetNoPanic(t *testing.T) {
	s := &PackScanner{hashSize: 20, packMmap: make([]byte, 64)}
	defer func() {
		if r := recover(); r != nil {
			t.Fatalf("getObject panicked on an offset taken from the idx: %v", r)
		}
	}()
	if _, err := s.getObject(plumbing.ZeroHash, uint64(1)<<63-1); err == nil {
		t.Fatal("offset far outside the pack was accepted")
	}
}

// F6: an idx whose stored object count does not fit the file.
func TestF6OversizedCountRejected(t *testing.T) {
	dir := t.TempDir()
	buf := make([]byte, 8+1024+64+40)
	copy(buf, []byte{0xff, 't', 'O', 'c', 0, 0, 0, 2})
	for i := 0; i < 256; i++ {
		binary.BigEndian.PutUint32(buf[8+4*i:], 0x00ffffff)
	}
	if err := os.WriteFile(filepath.Join(dir, "x.idx"), buf, 0o644); err != nil {
		t.Fatal(err)
	}
	f, err := osfs.New(dir).Open("x.idx")
	if err != nil {
		t.Fatal(err)
	}
	defer f.Close()
	s := &PackScanner{hashSize: 20}
	err = s.loadIdxFile(f)
	defer func() {
		if r := recover(); r != nil {
			t.Fatalf("lookup in an idx with an oversized object count panicked: %v", r)
		}
	}()
	if err == nil {
		_, _ = s.FindOffset(plumbing.ZeroHash)
		t.Fatal("idx with an object count that does not fit the file was accepted")
	}
}

// F7: a position outside the 32-bit offset table (as a malformed .rev supplies)
// was answered from the bytes that follow the table.
func TestF7PositionOutsideTableRejected(t *testing.T) {
	// one object: off32 table = 4 bytes, then 8 bytes of 64-bit table, then trailer
	idx := make([]byte, 8+1024+20+4+4+8+40)
	s := &PackScanner{hashSize: 20, count: 1, idxMmap: idx}
	s.fanoutStart = 8
	s.namesStart = 8 + 1024
	s.crcStart = s.namesStart + 20
	s.off32Start = s.crcStart + 4
	s.off64Start = s.off32Start + 4
	s.trailerStart = len(idx) - 40
	binary.BigEndian.PutUint32(idx[s.off64Start:], 0x00001234) // bytes that are NOT a 32-bit table entry
	if off, err := s.offset(1); err == nil {
		t.Fatalf("position 1 of a 1-object index answered with offset %#x", off)
	}
}
