// copy to: plumbing/transport/
//
// F63 (property C39, concurrent pushes): receive-pack checked the old value
// and wrote the new one in two separate steps although the storer offers
// CheckAndSetReference: two pushes made against the same old value were both
// accepted and one update was lost. Reported by a seeding sub-agent.
//
// Defects that exist in the UNCHANGED tree (no seeded change needed) and
// violate property C39. Each test fails on the scratch base commit.
package transport

import (
	"bytes"
	"context"
	"io"
	"strings"
	"sync"
	"testing"

	"github.com/go-git/go-git/v6/plumbing"
	"github.com/go-git/go-git/v6/plumbing/format/packfile"
	"github.com/go-git/go-git/v6/plumbing/protocol/capability"
	"github.com/go-git/go-git/v6/plumbing/protocol/packp"
	"github.com/go-git/go-git/v6/storage"
	"github.com/go-git/go-git/v6/storage/memory"
	"github.com/go-git/go-git/v6/utils/ioutil"
)

func f63Blob(t *testing.T, st *memory.Storage, content string) plumbing.Hash {
	t.Helper()
	obj := st.NewEncodedObject()
	obj.SetType(plumbing.BlobObject)
	w, err := obj.Writer()
	if err != nil {
		t.Fatal(err)
	}
	if _, err := io.WriteString(w, content); err != nil {
		t.Fatal(err)
	}
	if err := w.Close(); err != nil {
		t.Fatal(err)
	}
	h, err := st.SetEncodedObject(obj)
	if err != nil {
		t.Fatal(err)
	}
	return h
}

// f63Push runs one receive-pack exchange against server. The pack holds
// `objs`, read from `from`. withReport selects whether the client asks for
// report-status. It returns what the server wrote and ReceivePack's error.
func f63Push(t *testing.T, server storage.Storer, from *memory.Storage, objs []plumbing.Hash,
	withReport bool, hooks ReceivePackHooks, cmds ...*packp.Command,
) (string, error) {
	t.Helper()

	req := &packp.UpdateRequests{Commands: cmds}
	if withReport {
		req.Capabilities.Add(capability.ReportStatus)
	} else {
		req.Capabilities.Add(capability.DeleteRefs)
	}

	var body bytes.Buffer
	if err := req.Encode(&body); err != nil {
		t.Fatal(err)
	}
	needPack := false
	for _, c := range cmds {
		if c.Action() != packp.Delete {
			needPack = true
		}
	}
	if needPack {
		enc := packfile.NewEncoder(&body, from, false)
		if _, err := enc.Encode(objs, 0); err != nil {
			t.Fatal(err)
		}
	}

	var out bytes.Buffer
	err := ReceivePack(context.Background(), server, io.NopCloser(&body), ioutil.WriteNopCloser(&out),
		&ReceivePackRequest{StatelessRPC: true, Hooks: hooks})
	return out.String(), err
}

// f63RacingStorer lets a test run code at the point between
// updateReferences' old-value check and its SetReference: HasEncodedObject is
// called exactly there. It stands in for a second receive-pack process whose
// update lands in that window.
type f63RacingStorer struct {
	storage.Storer
	once sync.Once
	race func()
}

func (r *f63RacingStorer) HasEncodedObject(h plumbing.Hash) error {
	r.once.Do(r.race)
	return r.Storer.HasEncodedObject(h)
}

// P2. Concurrent pushes: the old-value check (currentValueIs) and the write
// (SetReference) are two separate, unlocked steps, although the storer offers
// CheckAndSetReference. Two pushes that both say "A -> ..." can both be
// accepted; the later write is applied although the reference no longer has
// the old value its client sent, and the other push's accepted update is lost.
func TestF63_ConcurrentPushesBothAcceptedFromSameOldValue(t *testing.T) {
	x := plumbing.ReferenceName("refs/heads/x")

	server := memory.NewStorage()
	a := f63Blob(t, server, "A\n")
	if err := server.SetReference(plumbing.NewHashReference(x, a)); err != nil {
		t.Fatal(err)
	}

	client1 := memory.NewStorage()
	b := f63Blob(t, client1, "B\n")
	client2 := memory.NewStorage()
	c := f63Blob(t, client2, "C\n")

	var report2 string
	racing := &f63RacingStorer{Storer: server}
	racing.race = func() {
		// The second push runs to completion inside the first push's window.
		report2, _ = f63Push(t, server, client2, []plumbing.Hash{c}, true, ReceivePackHooks{},
			&packp.Command{Name: x, Old: a, New: c})
	}

	report1, _ := f63Push(t, racing, client1, []plumbing.Hash{b}, true, ReceivePackHooks{},
		&packp.Command{Name: x, Old: a, New: b})

	ok1 := strings.Contains(report1, "ok "+x.String())
	ok2 := strings.Contains(report2, "ok "+x.String())
	got, err := server.Reference(x)
	if err != nil {
		t.Fatal(err)
	}
	t.Logf("push1 (A->B) report %q; push2 (A->C) report %q; final %s", report1, report2, got.Hash())

	if ok1 && ok2 {
		t.Errorf("both pushes based on old value %s were accepted; %s ended at %s, the other accepted update is lost",
			a, x, got.Hash())
	}
}

