// copy to: . (repository root, package git_test)
//
// F50 (property C29): storage/memory handed out its stored *index.Index
// itself, so the index a refused commit -a (ErrEmptyCommit) "puts back" was the
// very object autoAddModifiedAndDeleted had updated in place (F43 repaired the
// filesystem storage only). Reported by a seeding sub-agent.
package git_test

import (
	"testing"
	"time"

	"github.com/go-git/go-billy/v6/memfs"
	"github.com/go-git/go-billy/v6/util"
	"github.com/stretchr/testify/require"

	git "github.com/go-git/go-git/v6"
	"github.com/go-git/go-git/v6/plumbing/object"
	"github.com/go-git/go-git/v6/storage"
	"github.com/go-git/go-git/v6/storage/memory"
)

func f50Sig() *object.Signature {
	return &object.Signature{Name: "a", Email: "a@b.c", When: time.Unix(1700000000, 0)}
}

// snapshot of the index as name -> hash
func f50Index(t *testing.T, s storage.Storer) map[string]string {
	t.Helper()
	idx, err := s.Index()
	require.NoError(t, err)
	m := map[string]string{}
	for _, e := range idx.Entries {
		m[e.Name] = e.Hash.String()
	}
	return m
}

// P1: Commit{All:true} that is refused (ErrEmptyCommit) leaves the auto-staged
// content in the index when the storer is storage/memory: memory's Index()
// hands out the stored *index.Index itself, so the "saved" index that Commit
// writes back on failure is the very object autoAddModifiedAndDeleted mutated.
func TestF50_CommitAllMemoryIndexNotRestored(t *testing.T) {
	st := memory.NewStorage()
	wt := memfs.New()
	r, err := git.Init(st, git.WithWorkTree(wt))
	require.NoError(t, err)
	w, err := r.Worktree()
	require.NoError(t, err)

	require.NoError(t, util.WriteFile(wt, "a", []byte("v1\n"), 0o644))
	_, err = w.Add("a")
	require.NoError(t, err)
	_, err = w.Commit("c1", &git.CommitOptions{Author: f50Sig()})
	require.NoError(t, err)

	// stage v2, then put v1 (== HEAD) back in the worktree
	require.NoError(t, util.WriteFile(wt, "a", []byte("v2 longer\n"), 0o644))
	_, err = w.Add("a")
	require.NoError(t, err)
	require.NoError(t, util.WriteFile(wt, "a", []byte("v1\n"), 0o644))

	before := f50Index(t, st)

	// commit -a stages v1 again: the tree equals HEAD's tree, commit refused.
	_, err = w.Commit("c2", &git.CommitOptions{All: true, Author: f50Sig()})
	require.ErrorIs(t, err, git.ErrEmptyCommit)

	require.Equal(t, before, f50Index(t, st), "index changed by a refused commit -a")
}

