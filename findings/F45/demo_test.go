// copy to: plumbing/format/commitgraph/ . Demonstrates F45 (C51): a corrected-date offset in [2^31, 2^32) is written as an
// overflow pointer although the chunk table was sized without it.
package commitgraph_test

import (
	"bytes"
	"fmt"
	"os"
	"os/exec"
	"path/filepath"
	"strings"
	"testing"
	"time"

	"github.com/go-git/go-git/v6/plumbing"
	commitgraph "github.com/go-git/go-git/v6/plumbing/format/commitgraph"
)

type pre51BytesReader struct{ *bytes.Reader }

func (pre51BytesReader) Close() error { return nil }

// TestF45_GenerationOffsetBetween2p31And2p32 fails on the UNCHANGED
// tree. Encoder.prepare decides whether a GDO2 chunk is needed (and how big it
// is) with `GenerationV2Data() > math.MaxUint32`, while
// Encoder.encodeGenerationV2Data moves a value to the overflow list as soon
// as it is `>= 0x80000000` (which is the format's rule). A corrected
// commit-date offset in [2^31, 2^32) is therefore written as an overflow
// pointer into a GDO2 chunk that the table of contents does not declare (or
// declares too short); the 8 overflow bytes are still appended, so the
// terminator offset no longer matches the file either.
func TestF45_GenerationOffsetBetween2p31And2p32(t *testing.T) {
	root := plumbing.NewHash("1111111111111111111111111111111111111111")
	child := plumbing.NewHash("2222222222222222222222222222222222222222")
	tree := plumbing.NewHash("bbbbbbbbbbbbbbbbbbbbbbbbbbbbbbbbbbbbbbbb")

	// The parent was committed with a clock far in the future (year 2103),
	// the child with a sane clock: the child's corrected commit date is
	// parent+1 and its offset is about 2.5e9, between 2^31 and 2^32.
	const rootTime, childTime = int64(4200000000), int64(1700000030)
	wantV2 := uint64(rootTime + 1)

	mem := commitgraph.NewMemoryIndex()
	mem.Add(root, &commitgraph.CommitData{TreeHash: tree, Generation: 1,
		GenerationV2: uint64(rootTime), When: time.Unix(rootTime, 0)})
	mem.Add(child, &commitgraph.CommitData{TreeHash: tree, ParentHashes: []plumbing.Hash{root},
		Generation: 2, GenerationV2: wantV2, When: time.Unix(childTime, 0)})

	var buf bytes.Buffer
	if err := commitgraph.NewEncoder(&buf).Encode(mem); err != nil {
		t.Fatal(err)
	}
	idx, err := commitgraph.OpenFileIndex(pre51BytesReader{bytes.NewReader(buf.Bytes())})
	if err != nil {
		t.Fatalf("go-git cannot reopen its own file: %v", err)
	}
	defer idx.Close()
	i, err := idx.GetIndexByHash(child)
	if err != nil {
		t.Fatal(err)
	}
	cd, err := idx.GetCommitDataByIndex(i)
	if err != nil {
		t.Fatalf("go-git cannot read the commit back from its own file: %v", err)
	}
	if cd.GenerationV2 != wantV2 {
		t.Fatalf("GenerationV2 = %d, want %d", cd.GenerationV2, wantV2)
	}
}

// TestF45_GenerationOffsetGitVerify is the same defect observed
// with real git: the history is made of real commit objects and the file
// go-git writes is handed to `git commit-graph verify`, which dies with
// "commit-graph requires overflow generation data but has none".
func TestF45_GenerationOffsetGitVerify(t *testing.T) {
	if _, err := exec.LookPath("git"); err != nil {
		t.Skip("git not installed")
	}
	dir := t.TempDir()
	run := func(date int64, stdin string, args ...string) (string, error) {
		cmd := exec.Command("git", args...)
		cmd.Dir = dir
		d := fmt.Sprintf("@%d +0000", date)
		cmd.Env = append(os.Environ(), "GIT_CONFIG_NOSYSTEM=1", "GIT_CONFIG_GLOBAL=/dev/null", "HOME="+dir,
			"GIT_AUTHOR_NAME=a", "GIT_AUTHOR_EMAIL=a@example.com", "GIT_AUTHOR_DATE="+d,
			"GIT_COMMITTER_NAME=c", "GIT_COMMITTER_EMAIL=c@example.com", "GIT_COMMITTER_DATE="+d)
		cmd.Stdin = strings.NewReader(stdin)
		out, err := cmd.CombinedOutput()
		return strings.TrimSpace(string(out)), err
	}
	git := func(date int64, stdin string, args ...string) string {
		t.Helper()
		out, err := run(date, stdin, args...)
		if err != nil {
			t.Fatalf("git %v: %v\n%s", args, err, out)
		}
		return out
	}
	git(0, "", "init", "-q", ".")
	const rootTime, childTime = int64(4200000000), int64(1700000030)
	tree := git(0, "", "mktree")
	a := git(rootTime, "", "commit-tree", tree, "-m", "a")
	b := git(childTime, "", "commit-tree", tree, "-m", "b", "-p", a)
	git(0, "", "update-ref", "refs/heads/main", b)
	treeOf := func(string) plumbing.Hash { return plumbing.NewHash(tree) }

	mem := commitgraph.NewMemoryIndex()
	mem.Add(plumbing.NewHash(a), &commitgraph.CommitData{TreeHash: treeOf(a), Generation: 1,
		GenerationV2: uint64(rootTime), When: time.Unix(rootTime, 0)})
	mem.Add(plumbing.NewHash(b), &commitgraph.CommitData{TreeHash: treeOf(b),
		ParentHashes: []plumbing.Hash{plumbing.NewHash(a)},
		Generation:   2, GenerationV2: uint64(rootTime + 1), When: time.Unix(childTime, 0)})
	var buf bytes.Buffer
	if err := commitgraph.NewEncoder(&buf).Encode(mem); err != nil {
		t.Fatal(err)
	}
	// Sanity first: git's own file for the same history (it uses GDO2) verifies.
	git(0, "", "commit-graph", "write", "--reachable")
	git(0, "", "commit-graph", "verify")

	if err := os.WriteFile(filepath.Join(dir, ".git/objects/info/commit-graph"), buf.Bytes(), 0o644); err != nil {
		t.Fatal(err)
	}
	if out, err := run(0, "", "commit-graph", "verify"); err != nil {
		t.Fatalf("git commit-graph verify rejects the file go-git wrote:\n%s", out)
	}
}
