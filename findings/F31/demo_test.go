// copy to: plumbing/format/packfile/ . Demonstrates F31 (C09): the pooled zlib reader was
// reset with a 32 KiB all-zero preset dictionary, so a pack entry whose zlib stream
// sets FDICT with that dictionary's id inflated fine; git has no dictionary and
// rejects the pack.
package packfile_test

import (
	"bytes"
	"compress/zlib"
	"crypto/sha1"
	"encoding/binary"
	"os"
	"os/exec"
	"path/filepath"
	"testing"

	"github.com/go-git/go-git/v6/plumbing"
	"github.com/go-git/go-git/v6/plumbing/format/packfile"
	"github.com/go-git/go-git/v6/storage/memory"
)

func preC09cGitRejects(t *testing.T, pack []byte) bool {
	t.Helper()
	gitBin, err := exec.LookPath("git")
	if err != nil {
		t.Skip("git not available")
	}
	dir := t.TempDir()
	if out, err := exec.Command(gitBin, "init", "-q", "--bare", dir).CombinedOutput(); err != nil {
		t.Skipf("git init: %v %s", err, out)
	}
	pf := filepath.Join(t.TempDir(), "in.pack")
	if err := os.WriteFile(pf, pack, 0o600); err != nil {
		t.Fatal(err)
	}
	f, err := os.Open(pf)
	if err != nil {
		t.Fatal(err)
	}
	defer f.Close()
	cmd := exec.Command(gitBin, "--git-dir", dir, "index-pack", "--stdin")
	cmd.Stdin = f
	out, err := cmd.CombinedOutput()
	t.Logf("git index-pack --stdin: err=%v out=%q", err, out)
	return err != nil
}

func preC09cOneBlobPack(z []byte, size int) []byte {
	var body bytes.Buffer
	body.WriteString("PACK")
	_ = binary.Write(&body, binary.BigEndian, uint32(2))
	_ = binary.Write(&body, binary.BigEndian, uint32(1))
	c := byte(plumbing.BlobObject)<<4 | byte(size&0x0f)
	size >>= 4
	for size != 0 {
		body.WriteByte(c | 0x80)
		c = byte(size & 0x7f)
		size >>= 7
	}
	body.WriteByte(c)
	body.Write(z)
	sum := sha1.Sum(body.Bytes())
	body.Write(sum[:])
	return body.Bytes()
}

// An entry whose zlib stream has FDICT set (preset dictionary). git has no
// dictionary and refuses the entry. go-git resets every pooled zlib reader
// with a 32 KiB all-zero "dictionary" (utils/sync.GetZlibReader passes
// *GetByteSlice(), which is clear()ed), so a stream naming the Adler-32 of
// 32768 zero bytes as its DICTID inflates fine.
func TestF31ZlibPresetDictionaryAccepted(t *testing.T) {
	content := bytes.Repeat([]byte{0}, 100)
	var z bytes.Buffer
	zw, err := zlib.NewWriterLevelDict(&z, zlib.BestCompression, make([]byte, 32*1024))
	if err != nil {
		t.Fatal(err)
	}
	_, _ = zw.Write(content)
	_ = zw.Close()
	pack := preC09cOneBlobPack(z.Bytes(), len(content))

	if !preC09cGitRejects(t, pack) {
		t.Skip("git accepted the pack; premise does not hold here")
	}
	st := memory.NewStorage()
	if _, err := packfile.NewParser(bytes.NewReader(pack), packfile.WithStorage(st)).Parse(); err == nil {
		t.Errorf("go-git accepted a pack entry compressed with a zlib preset dictionary (git rejects it); stored %d objects", len(st.Objects))
	}
}

