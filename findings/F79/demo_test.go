// copy to: plumbing/format/idxfile/
package idxfile_test

import (
	"bytes"
	"crypto"
	"encoding/binary"
	"testing"

	"github.com/go-git/go-git/v6/plumbing"
	"github.com/go-git/go-git/v6/plumbing/format/idxfile"
	"github.com/go-git/go-git/v6/plumbing/format/revfile"
	"github.com/go-git/go-git/v6/plumbing/hash"
)

type preexistingRA struct{ *bytes.Reader }

func (preexistingRA) Close() error { return nil }

func preexistingOpener(b []byte) func() (idxfile.ReadAtCloser, error) {
	return func() (idxfile.ReadAtCloser, error) { return preexistingRA{bytes.NewReader(b)}, nil }
}

func preexistingBuild(t *testing.T, entries []idxfile.Entry) (*idxfile.MemoryIndex, []byte, []byte, plumbing.Hash) {
	t.Helper()
	pack := plumbing.NewHash("00000000000000000000000000000000000000aa")
	w := new(idxfile.Writer)
	if err := w.OnHeader(uint32(len(entries))); err != nil {
		t.Fatal(err)
	}
	for _, e := range entries {
		w.Add(e.Hash, e.Offset, e.CRC32)
	}
	if err := w.OnFooter(pack); err != nil {
		t.Fatal(err)
	}
	mem, err := w.Index()
	if err != nil {
		t.Fatal(err)
	}
	var idxBuf, revBuf bytes.Buffer
	if err := idxfile.Encode(&idxBuf, hash.New(crypto.SHA1), mem); err != nil {
		t.Fatal(err)
	}
	if err := revfile.Encode(&revBuf, hash.New(crypto.SHA1), mem); err != nil {
		t.Fatal(err)
	}
	return mem, idxBuf.Bytes(), revBuf.Bytes(), pack
}

// Every entry of the set has an offset >= 2^31. The index go-git writes for
// it holds one 64-bit slot per object; Decoder.Decode (validateIdxV2Size,
// maxSize = minSize + (nr-1)*8) refuses to read it back, while LazyIndex
// opens the very same bytes and answers from them.
func TestPreexistingC10AllOffsets64BitDoesNotDecodeBack(t *testing.T) {
	entries := []idxfile.Entry{
		{Hash: plumbing.NewHash("1100000000000000000000000000000000000001"), Offset: 1 << 31, CRC32: 7},
		{Hash: plumbing.NewHash("2200000000000000000000000000000000000002"), Offset: 1<<32 + 5, CRC32: 9},
	}
	_, idxBytes, revBytes, pack := preexistingBuild(t, entries)

	lazy, err := idxfile.NewLazyIndex(preexistingOpener(idxBytes), preexistingOpener(revBytes), pack)
	if err != nil {
		t.Fatalf("lazy index refuses the written index: %v", err)
	}
	defer lazy.Close()
	for _, e := range entries {
		off, err := lazy.FindOffset(e.Hash)
		if err != nil || uint64(off) != e.Offset {
			t.Fatalf("lazy FindOffset(%s) = %d, %v; want %d", e.Hash, off, err, e.Offset)
		}
	}

	dec := idxfile.NewMemoryIndex(crypto.SHA1.Size())
	if err := idxfile.NewDecoder(idxfile.FromBytes(idxBytes), hash.New(crypto.SHA1)).Decode(dec); err != nil {
		t.Fatalf("the index go-git wrote does not decode back (LazyIndex answers from it): %v", err)
	}
}

// LazyIndex.init reads only the 12-byte header of the .rev file: a reverse
// index whose size does not match the object count of the idx (here: the
// .rev of a three-object pack next to a two-object idx) is accepted and
// FindHash answers "not found" for an offset that is in the index. The
// memory-mapped reader refuses such a pair at open (NewPackScanner).
func TestPreexistingC10LazyIndexAnswersFromForeignRev(t *testing.T) {
	entries := []idxfile.Entry{
		{Hash: plumbing.NewHash("1100000000000000000000000000000000000001"), Offset: 100, CRC32: 7},
		{Hash: plumbing.NewHash("2200000000000000000000000000000000000002"), Offset: 200, CRC32: 9},
	}
	_, idxBytes, _, pack := preexistingBuild(t, entries)

	// A well-formed rev file of another, three-object pack: positions 1,0,2.
	var rev bytes.Buffer
	rev.WriteString("RIDX")
	_ = binary.Write(&rev, binary.BigEndian, uint32(1))
	_ = binary.Write(&rev, binary.BigEndian, uint32(1))
	for _, p := range []uint32{1, 0, 2} {
		_ = binary.Write(&rev, binary.BigEndian, p)
	}
	rev.Write(make([]byte, 40))

	lazy, err := idxfile.NewLazyIndex(preexistingOpener(idxBytes), preexistingOpener(rev.Bytes()), pack)
	if err != nil {
		return // rejected: the behaviour the property asks for
	}
	defer lazy.Close()
	h, err := lazy.FindHash(200)
	if err != nil || h != entries[1].Hash {
		t.Fatalf("rev file of the wrong size was accepted and answered from: FindHash(200) = %s, %v; want %s", h, err, entries[1].Hash)
	}
}
