// copy to: storage/filesystem/
//
// F56 (property C18): PackWriter.Close ran Notify from a defer whether or not
// the pack was saved, so a pack write that failed while the pack was moved
// into place still published the pack's index. Reported by a seeding sub-agent.
package filesystem_test

import (
	"bytes"
	"errors"
	"io"
	"strings"
	"testing"

	"github.com/go-git/go-billy/v6"
	"github.com/go-git/go-billy/v6/memfs"

	"github.com/go-git/go-git/v6/plumbing"
	"github.com/go-git/go-git/v6/plumbing/cache"
	"github.com/go-git/go-git/v6/plumbing/format/packfile"
	"github.com/go-git/go-git/v6/storage/filesystem"
	"github.com/go-git/go-git/v6/storage/memory"
)

// f56Pack encodes the given blobs into a packfile and returns the
// raw pack, its checksum and the blob hashes.
func f56Pack(t *testing.T, blobs ...string) ([]byte, plumbing.Hash, []plumbing.Hash) {
	t.Helper()
	ms := memory.NewStorage()
	var hs []plumbing.Hash
	for _, b := range blobs {
		o := ms.NewEncodedObject()
		o.SetType(plumbing.BlobObject)
		w, err := o.Writer()
		if err != nil {
			t.Fatal(err)
		}
		_, _ = w.Write([]byte(b))
		_ = w.Close()
		h, err := ms.SetEncodedObject(o)
		if err != nil {
			t.Fatal(err)
		}
		hs = append(hs, h)
	}
	var buf bytes.Buffer
	ph, err := packfile.NewEncoder(&buf, ms, false).Encode(hs, 0)
	if err != nil {
		t.Fatal(err)
	}
	return buf.Bytes(), ph, hs
}

func f56WritePack(t *testing.T, st *filesystem.Storage, raw []byte) {
	t.Helper()
	w, err := st.PackfileWriter()
	if err != nil {
		t.Fatal(err)
	}
	if _, err := w.Write(raw); err != nil {
		t.Fatal(err)
	}
	if err := w.Close(); err != nil {
		t.Fatal(err)
	}
}

func f56Read(st *filesystem.Storage, h plumbing.Hash) ([]byte, error) {
	o, err := st.EncodedObject(plumbing.AnyObject, h)
	if err != nil {
		return nil, err
	}
	r, err := o.Reader()
	if err != nil {
		return nil, err
	}
	defer r.Close()
	return io.ReadAll(r)
}

// f56FailPackRenameFS fails the rename that moves a pack into place
// while armed.
type f56FailPackRenameFS struct {
	billy.Filesystem
	armed bool
}

func (f *f56FailPackRenameFS) Rename(from, to string) error {
	if f.armed && strings.HasSuffix(to, ".pack") {
		return errors.New("injected fault: rename failed")
	}
	return f.Filesystem.Rename(from, to)
}

// PackWriter.Close runs Notify from a defer, whether or not the pack was saved.
// A pack write that fails when the pack is moved into place therefore still
// publishes the pack's index in ObjectStorage.index/packs. Lookups are
// pack-membership-first, so a loose write of one of those objects that
// succeeds afterwards is answered from the phantom pack: has says yes, size
// and get fail, although the loose object is on disk.
func TestF56_FailedPackWritePublishesIndex(t *testing.T) {
	for _, exclusive := range []bool{false, true} {
		fs := &f56FailPackRenameFS{Filesystem: memfs.New()}
		st := filesystem.NewStorageWithOptions(fs, cache.NewObjectLRUDefault(),
			filesystem.Options{ExclusiveAccess: exclusive})
		if err := st.Init(); err != nil {
			t.Fatal(err)
		}

		raw, _, hs := f56Pack(t, "the object\n")
		x := hs[0]

		fs.armed = true
		w, err := st.PackfileWriter()
		if err != nil {
			t.Fatal(err)
		}
		_, _ = w.Write(raw)
		if err := w.Close(); err == nil {
			t.Fatal("the pack write was expected to fail")
		}
		fs.armed = false

		o := st.NewEncodedObject()
		o.SetType(plumbing.BlobObject)
		ow, _ := o.Writer()
		_, _ = ow.Write([]byte("the object\n"))
		_ = ow.Close()
		if h, err := st.SetEncodedObject(o); err != nil || h != x {
			t.Fatalf("loose write: %s, %v", h, err)
		}

		if err := st.HasEncodedObject(x); err != nil {
			t.Errorf("exclusive=%v has: %v", exclusive, err)
		}
		if _, err := st.EncodedObjectSize(x); err != nil {
			t.Errorf("exclusive=%v size of the loose object just written: %v", exclusive, err)
		}
		if _, err := f56Read(st, x); err != nil {
			t.Errorf("exclusive=%v get of the loose object just written: %v", exclusive, err)
		}
	}
}
