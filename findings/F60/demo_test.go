// copy to: plumbing/format/packfile/
//
// F60 (property C06): none of the appliers produces partial output
// successfully -- but the streaming applier ReaderFromDelta closed its pipe with
// io.EOF when the delta ended inside a copy command's operand bytes, so the
// consumer saw a clean end of stream after a prefix of the target. Reported by
// a seeding sub-agent.
package packfile

import (
	"bufio"
	"bytes"
	"io"
	"testing"

	"github.com/go-git/go-git/v6/plumbing"
	format "github.com/go-git/go-git/v6/plumbing/format/config"
)

// A delta that ends in the middle of a copy command's operand bytes is
// rejected by git's patch_delta (and by go-git's buffer applier), but the
// streaming applier closes its pipe with io.EOF, so the consumer sees a clean
// end of stream after a prefix of the target.
func TestF60_ReaderFromDeltaTruncatedCopyOperand(t *testing.T) {
	src := []byte("0123456789abcdefghij") // 20 bytes
	delta := []byte{
		20,               // source size
		10,               // target size
		3, 'x', 'y', 'z', // insert 3 bytes
		0x91, // copy, one offset byte and one size byte announced, none present
	}

	if _, err := PatchDelta(src, delta); err == nil {
		t.Fatalf("buffer applier accepted the truncated delta")
	}

	base := &plumbing.MemoryObject{}
	base.SetType(plumbing.BlobObject)
	_, _ = base.Write(src)

	rc, err := ReaderFromDelta(base, bytes.NewReader(delta))
	if err != nil {
		return // rejected up front: fine
	}
	out, err := io.ReadAll(rc)
	if err == nil {
		t.Fatalf("streaming applier returned %q (%d of the 10 declared bytes) with a nil error", out, len(out))
	}
}

func preexistingC06Appliers(t *testing.T, src, delta []byte) map[string]error {
	t.Helper()
	res := map[string]error{}

	_, err := PatchDelta(src, delta)
	res["PatchDelta"] = err

	base := &plumbing.MemoryObject{}
	base.SetType(plumbing.BlobObject)
	_, _ = base.Write(src)
	rc, err := ReaderFromDelta(base, bytes.NewReader(delta))
	if err == nil {
		_, err = io.ReadAll(rc)
	}
	res["ReaderFromDelta"] = err

	var dst bytes.Buffer
	_, _, err = patchDeltaWriter(&dst, bytes.NewReader(src), bufio.NewReader(bytes.NewReader(delta)),
		plumbing.BlobObject, nil, format.SHA1)
	res["patchDeltaWriter"] = err
	return res
}

