// copy to: . (repository root, package git). Demonstrates F32 (C29): Add of a file whose mtime the index encoder refuses (pre-1970)
// returned an error after .git/index had been truncated in place: every staged entry was lost.
package git

import (
	"errors"
	"os"
	"path/filepath"
	"testing"
	"time"

	"github.com/go-git/go-billy/v6/util"

	"github.com/go-git/go-git/v6/plumbing"
	"github.com/go-git/go-git/v6/plumbing/format/index"
	"github.com/go-git/go-git/v6/plumbing/object"
)

func preC29dSig() *object.Signature {
	return &object.Signature{Name: "a", Email: "a@example.com", When: time.Unix(1700000000, 0)}
}

func preC29dCommit(t *testing.T, w *Worktree, name, content string) plumbing.Hash {
	t.Helper()
	if dir := filepath.Dir(name); dir != "." {
		if err := w.Filesystem().MkdirAll(dir, 0o755); err != nil {
			t.Fatal(err)
		}
	}
	if err := util.WriteFile(w.Filesystem(), name, []byte(content), 0o644); err != nil {
		t.Fatalf("write %s: %v", name, err)
	}
	if _, err := w.Add(name); err != nil {
		t.Fatalf("add %s: %v", name, err)
	}
	h, err := w.Commit("c "+name, &CommitOptions{Author: preC29dSig()})
	if err != nil {
		t.Fatalf("commit: %v", err)
	}
	return h
}

func preC29dIndexHash(t *testing.T, r *Repository, name string) plumbing.Hash {
	t.Helper()
	idx, err := r.Storer.Index()
	if err != nil {
		t.Fatalf("index unreadable: %v", err)
	}
	e, err := idx.Entry(name)
	if err != nil {
		t.Fatalf("index entry %s: %v", name, err)
	}
	return e.Hash
}

// P3. Add of a file whose mtime is before 1970: the entry is updated in
// memory, SetIndex truncates .git/index (dotgit.IndexWriter is a plain Create,
// no lock file + rename) and the encoder then refuses the entry with
// ErrInvalidTimestamp. The refused Add leaves a truncated, unreadable index.
func TestF32AddRefusedNegativeMtimeDestroysIndex(t *testing.T) {
	dir := t.TempDir()
	r, err := PlainInit(dir, false)
	if err != nil {
		t.Fatal(err)
	}
	defer func() { _ = r.Close() }()
	w, err := r.Worktree()
	if err != nil {
		t.Fatal(err)
	}
	preC29dCommit(t, w, "a.txt", "A\n")
	before := preC29dIndexHash(t, r, "a.txt")

	if err := os.WriteFile(filepath.Join(dir, "old.txt"), []byte("old\n"), 0o644); err != nil {
		t.Fatal(err)
	}
	old := time.Date(1969, 7, 20, 20, 17, 0, 0, time.UTC)
	if err := os.Chtimes(filepath.Join(dir, "old.txt"), old, old); err != nil {
		t.Skipf("cannot set a pre-1970 mtime here: %v", err)
	}

	_, err = w.Add("old.txt")
	if !errors.Is(err, index.ErrInvalidTimestamp) {
		t.Fatalf("setup: expected ErrInvalidTimestamp, got %v", err)
	}

	idx, ierr := r.Storer.Index()
	if ierr != nil {
		t.Fatalf("add was refused (%v) and the index is now unreadable: %v", err, ierr)
	}
	e, eerr := idx.Entry("a.txt")
	if eerr != nil || e.Hash != before {
		t.Fatalf("add was refused (%v) and the index lost a.txt: %v", err, eerr)
	}
}
