// copy to: storage/filesystem/ . Demonstrates F29 (C20): the index encoder writes no
// extensions, but SetIndex cached the caller's index including its TREE / REUC /
// EOIE data: after Worktree.Add on a repository whose index git wrote, the
// cached view has a (stale) cache tree that a decode of .git/index does not.
package filesystem_test

import (
	"crypto/sha1" //nolint:gosec
	"os"
	"os/exec"
	"path/filepath"
	"testing"

	"github.com/stretchr/testify/require"

	git "github.com/go-git/go-git/v6"
	"github.com/go-git/go-git/v6/plumbing/format/index"
)

func preC20Decode(t *testing.T, gitdir string) (*index.Index, error) {
	t.Helper()
	f, err := os.Open(filepath.Join(gitdir, "index"))
	require.NoError(t, err)
	defer f.Close()
	idx := &index.Index{}
	return idx, index.NewDecoder(f, sha1.New()).Decode(idx) //nolint:gosec
}

// P1: extensions (TREE, REUC, EOIE) are never written by the encoder, but
// SetIndex caches the caller's struct including them.
func TestF29ExtensionsSurviveInCache(t *testing.T) {
	if _, err := exec.LookPath("git"); err != nil {
		t.Skip("git not installed")
	}
	dir := t.TempDir()
	run := func(args ...string) {
		cmd := exec.Command("git", args...)
		cmd.Dir = dir
		cmd.Env = append(os.Environ(), "GIT_AUTHOR_NAME=a", "GIT_AUTHOR_EMAIL=a@b", "GIT_COMMITTER_NAME=a", "GIT_COMMITTER_EMAIL=a@b")
		out, err := cmd.CombinedOutput()
		require.NoError(t, err, string(out))
	}
	run("init", "-q")
	require.NoError(t, os.WriteFile(filepath.Join(dir, "a.txt"), []byte("a\n"), 0o644))
	run("add", "a.txt")
	run("commit", "-q", "-m", "one") // commit writes the TREE extension

	r, err := git.PlainOpen(dir)
	require.NoError(t, err)
	w, err := r.Worktree()
	require.NoError(t, err)

	require.NoError(t, os.WriteFile(filepath.Join(dir, "b.txt"), []byte("b\n"), 0o644))
	_, err = w.Add("b.txt")
	require.NoError(t, err)

	got, err := r.Storer.Index()
	require.NoError(t, err)
	want, err := preC20Decode(t, filepath.Join(dir, ".git"))
	require.NoError(t, err)
	require.Equal(t, want.Cache, got.Cache, "cached view keeps a TREE extension that is not on disk")
}

