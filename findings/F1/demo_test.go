package packfile

import (
	"bufio"
	"bytes"
	"io"
	"testing"

	"github.com/go-git/go-git/v6/plumbing"
	format "github.com/go-git/go-git/v6/plumbing/format/config"
)

// Copy into plumbing/format/packfile/. A delta declaring a 5-byte target whose
// single insert command (5 literal bytes) is truncated after 2 bytes:
// patchDelta rejects it; before the fix the streaming appliers returned 2 bytes
// with a nil error.
func TestF1TruncatedLiteral(t *testing.T) {
	src := []byte("hello")
	delta := []byte{0x05, 0x05, 0x05, 'a', 'b'}
	var out bytes.Buffer
	if err := patchDelta(&out, src, delta); err == nil {
		t.Fatal("patchDelta accepted a truncated literal")
	}
	var dst bytes.Buffer
	n, _, err := patchDeltaWriter(&dst, bytes.NewReader(src), bufio.NewReader(bytes.NewReader(delta)), plumbing.BlobObject, nil, format.SHA1)
	if err == nil {
		t.Fatalf("patchDeltaWriter reported success: size %d, wrote %d bytes %q", n, dst.Len(), dst.Bytes())
	}
	base := &plumbing.MemoryObject{}
	base.SetType(plumbing.BlobObject)
	base.Write(src)
	r, err := ReaderFromDelta(base, bytes.NewReader(delta))
	if err == nil {
		got, rerr := io.ReadAll(r)
		if rerr == nil {
			t.Fatalf("ReaderFromDelta streamed %q with a nil error", got)
		}
	}
}
