// copy to: internal/sharedfile/
package sharedfile_test

import (
	"bytes"
	"sync/atomic"
	"testing"
	"testing/synctest"
	"time"

	"github.com/go-git/go-git/v6/internal/sharedfile"
	"github.com/go-git/go-git/v6/x/fdpool"
)

type preexistingC24File struct {
	*bytes.Reader
	closed atomic.Bool
}

func (f *preexistingC24File) Close() error { f.closed.Store(true); return nil }

// TestPreexistingC24_DisabledPoolNeverClosesIdleDescriptor reproduces a
// defect of the UNCHANGED tree.
//
// storage/filesystem.Options.Pool documents: "To disable pooling, pass
// fdpool.New(0) (or any non-positive capacity): the resulting no-op Pool
// causes pool-less SharedFiles to fall back to their grace-period close on
// quiescence."  fdpool.New(0) returns a NON-nil *Pool whose Touch/Forget are
// no-ops and which never evicts.  SharedFile.Release, however, only tests
// `s.pool != nil` before skipping the grace timer ("Pool drives eviction").
// So with a disabled pool neither the grace timer nor the pool ever closes
// the idle descriptor: every .pack/.idx/.rev that was read once stays open
// until the Storage is closed (or CloseIdleDescriptors is called), without
// any bound.  That breaks "idle handles are eventually closed" and "the
// number of open pooled handles never exceeds the pool capacity (0) plus the
// handles currently pinned (0)".
func TestPreexistingC24_DisabledPoolNeverClosesIdleDescriptor(t *testing.T) {
	synctest.Test(t, func(t *testing.T) {
		f := &preexistingC24File{Reader: bytes.NewReader([]byte("PACK"))}
		open := func() (sharedfile.ReadAtCloser, error) { return f, nil }

		sf := sharedfile.NewWithPool(open, 100*time.Millisecond, fdpool.New(0))
		defer sf.Close()

		if _, err := sf.Acquire(); err != nil {
			t.Fatal(err)
		}
		sf.Release()

		// Far beyond the grace period, in virtual time.
		time.Sleep(24 * time.Hour)
		synctest.Wait()

		if !f.closed.Load() {
			t.Fatalf("idle descriptor still open 24h after the last Release with a disabled (capacity 0) pool: "+
				"no grace timer was armed and the no-op pool never evicts (pool stats: %+v)", fdpool.New(0).Stats())
		}
	})
}
