// copy to: plumbing/object/
//
// F48 (property C04): git's get_mode puts no limit on the length of a tree
// entry's mode field, so trees written with zero-padded modes ("00100644",
// "000000100644", hash-object --literally) are listed by git ls-tree with the
// canonical mode. filemode.FromBytes refused every field longer than 7 bytes
// and Tree.Decode failed with ErrMalformedTree. Reported by a seeding
// sub-agent.
package object

import (
	"testing"

	"github.com/go-git/go-git/v6/plumbing"
	"github.com/go-git/go-git/v6/plumbing/filemode"
)

func TestF48_DecodeZeroPaddedModeLongerThan7(t *testing.T) {
	id := plumbing.NewHash("5c0a9be8e7ad5ff1c2bb8cb4a4e79ba1a2bd2baa")
	for mode, want := range map[string]filemode.FileMode{
		"00100644":     filemode.Regular,
		"000000100755": filemode.Executable,
		"00040000":     filemode.Dir,
		"0000000000000000000000120000": filemode.Symlink,
	} {
		raw := append([]byte(mode+" f\x00"), id.Bytes()...)
		o := &plumbing.MemoryObject{}
		o.SetType(plumbing.TreeObject)
		_, _ = o.Write(raw)
		tr := &Tree{}
		if err := tr.Decode(o); err != nil {
			t.Errorf("mode %q: git ls-tree lists the entry as %06o, Tree.Decode fails: %v", mode, uint32(want), err)
			continue
		}
		if len(tr.Entries) != 1 || tr.Entries[0].Mode != want || tr.Entries[0].Name != "f" || tr.Entries[0].Hash != id {
			t.Errorf("mode %q: decoded %+v, want mode %06o", mode, tr.Entries, uint32(want))
		}
	}
}
