// copy to: storage/transactional/
//
// F51 (property C19, twin of F44): the transactional CheckAndSetReference
// compared only Hash(). Two symbolic references both have the zero hash, so a
// check-and-set made against a symbolic target that is not the stored one
// succeeded. Reported by a seeding sub-agent.
package transactional_test

import (
	"errors"
	"testing"

	"github.com/go-git/go-git/v6/plumbing"
	"github.com/go-git/go-git/v6/storage"
	"github.com/go-git/go-git/v6/storage/memory"
	"github.com/go-git/go-git/v6/storage/transactional"
)

func TestF51_TransactionalSymbolicCASIgnoresTarget(t *testing.T) {
	base := memory.NewStorage()
	if err := base.SetReference(plumbing.NewSymbolicReference(plumbing.HEAD, "refs/heads/current")); err != nil {
		t.Fatal(err)
	}
	tx := transactional.NewStorage(base, memory.NewStorage())

	stale := plumbing.NewSymbolicReference(plumbing.HEAD, "refs/heads/something-else")
	next := plumbing.NewSymbolicReference(plumbing.HEAD, "refs/heads/next")
	err := tx.CheckAndSetReference(next, stale)
	if !errors.Is(err, storage.ErrReferenceHasChanged) {
		t.Fatalf("check-and-set against a stale symbolic target: got %v, want ErrReferenceHasChanged", err)
	}

	// and a hash reference is not "equal" to a symbolic one with the zero hash
	err = tx.CheckAndSetReference(next, plumbing.NewHashReference(plumbing.HEAD, plumbing.ZeroHash))
	if !errors.Is(err, storage.ErrReferenceHasChanged) {
		t.Fatalf("check-and-set of a symbolic reference against a zero-hash reference: got %v", err)
	}
}
