// copy to: plumbing/transport/ . Demonstrates F26 (C39): receive-pack applies a
// create command whose new object id is neither in the pushed pack nor in the
// repository, leaving a reference that points to a missing object and
// reporting "ok". git's receive-pack update() refuses it ("bad pack": unpack
// should have generated <id>).
package transport

import (
	"bytes"
	"context"
	"io"
	"testing"

	"github.com/go-git/go-git/v6/plumbing"
	"github.com/go-git/go-git/v6/plumbing/format/packfile"
	"github.com/go-git/go-git/v6/plumbing/protocol/capability"
	"github.com/go-git/go-git/v6/plumbing/protocol/packp"
	"github.com/go-git/go-git/v6/storage/memory"
	"github.com/go-git/go-git/v6/utils/ioutil"
)

func TestF26RefToMissingObject(t *testing.T) {
	server := memory.NewStorage()
	client := memory.NewStorage()
	missing := plumbing.NewHash("1111111111111111111111111111111111111111")
	name := plumbing.ReferenceName("refs/heads/ghost")

	caps := capability.List{}
	caps.Add(capability.ReportStatus)
	req := &packp.UpdateRequests{
		Capabilities: caps,
		Commands:     []*packp.Command{{Name: name, Old: plumbing.ZeroHash, New: missing}},
	}
	var body bytes.Buffer
	if err := req.Encode(&body); err != nil {
		t.Fatal(err)
	}
	// a well-formed pack with no objects
	if _, err := packfile.NewEncoder(&body, client, false).Encode(nil, 10); err != nil {
		t.Fatal(err)
	}
	var out bytes.Buffer
	_ = ReceivePack(context.Background(), server, io.NopCloser(&body), ioutil.WriteNopCloser(&out),
		&ReceivePackRequest{StatelessRPC: true})

	if ref, err := server.Reference(name); err == nil {
		if _, oerr := server.EncodedObject(plumbing.AnyObject, ref.Hash()); oerr != nil {
			t.Fatalf("reference %s was set to %s, which is missing from the repository (report: %q)", name, ref.Hash(), out.String())
		}
	}
}
