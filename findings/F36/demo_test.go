// copy to: plumbing/format/packfile/ . Demonstrates F36 (unbounded recursion on a cross-pack delta cycle) and F37 (duplicate ids written twice), both C07.
package packfile_test

// Two defects that exist in the UNCHANGED tree and violate property C07.
// Both tests FAIL on the unchanged tree.

import (
	"bytes"
	"crypto"
	"io"
	"math/rand"
	"os"
	"os/exec"
	"path/filepath"
	"runtime/debug"
	"strings"
	"testing"
	"time"

	"github.com/go-git/go-billy/v6/memfs"
	"github.com/go-git/go-billy/v6/osfs"

	"github.com/go-git/go-git/v6/plumbing"
	"github.com/go-git/go-git/v6/plumbing/cache"
	"github.com/go-git/go-git/v6/plumbing/format/idxfile"
	"github.com/go-git/go-git/v6/plumbing/format/packfile"
	"github.com/go-git/go-git/v6/plumbing/hash"
	"github.com/go-git/go-git/v6/storage/filesystem"
	"github.com/go-git/go-git/v6/storage/memory"
)

func c07dBlob(t *testing.T, st *memory.Storage, content []byte) plumbing.EncodedObject {
	t.Helper()
	o := st.NewEncodedObject()
	o.SetType(plumbing.BlobObject)
	w, err := o.Writer()
	if err != nil {
		t.Fatal(err)
	}
	if _, err := w.Write(content); err != nil {
		t.Fatal(err)
	}
	if err := w.Close(); err != nil {
		t.Fatal(err)
	}
	if _, err := st.SetEncodedObject(o); err != nil {
		t.Fatal(err)
	}
	return o
}

// Finding 1: the same hash requested twice is written twice. The encoder does
// not de-duplicate its input, and `git index-pack --strict` refuses such a
// pack ("The same object ... appears twice in the pack"), for every window
// (0 included) and both delta kinds.
func TestF37DuplicateHashesRejectedByGit(t *testing.T) {
	if _, err := exec.LookPath("git"); err != nil {
		t.Skip("git not found")
	}

	st := memory.NewStorage()
	a := c07dBlob(t, st, []byte(strings.Repeat("hello world ", 10)))
	b := c07dBlob(t, st, []byte("x"))
	hashes := []plumbing.Hash{a.Hash(), b.Hash(), a.Hash()}

	for _, window := range []uint{0, 10} {
		var buf bytes.Buffer
		if _, err := packfile.NewEncoder(&buf, st, false).Encode(hashes, window); err != nil {
			t.Fatalf("window %d: Encode: %v", window, err)
		}
		path := filepath.Join(t.TempDir(), "dup.pack")
		if err := os.WriteFile(path, buf.Bytes(), 0o644); err != nil {
			t.Fatal(err)
		}
		if out, err := exec.Command("git", "index-pack", "--strict", path).CombinedOutput(); err != nil {
			t.Errorf("window %d: git index-pack --strict rejects the pack: %v: %s", window, err, out)
		}
	}
}

type c07dFixed struct{ objs []*packfile.ObjectToPack }

func (f c07dFixed) ObjectsToPack([]plumbing.Hash, uint) ([]*packfile.ObjectToPack, error) {
	return f.objs, nil
}

// c07dWritePack writes objs, exactly as given, as objects/pack/pack-<id>.{pack,idx}.
func c07dWritePack(t *testing.T, gitdir string, st *memory.Storage, objs []*packfile.ObjectToPack) {
	t.Helper()
	var buf bytes.Buffer
	enc := packfile.NewEncoder(&buf, st, false, packfile.WithObjectSelector(c07dFixed{objs}))
	id, err := enc.Encode(nil, 10)
	if err != nil {
		t.Fatal(err)
	}

	fs := memfs.New()
	f, _ := fs.Create("p")
	f.Write(buf.Bytes())
	f.Seek(0, io.SeekStart)
	w := new(idxfile.Writer)
	if _, err := packfile.NewParser(packfile.NewScanner(f), packfile.WithScannerObservers(w)).Parse(); err != nil {
		t.Fatal(err)
	}
	idx, err := w.Index()
	if err != nil {
		t.Fatal(err)
	}
	var ibuf bytes.Buffer
	if err := idxfile.Encode(&ibuf, hash.New(crypto.SHA1), idx); err != nil {
		t.Fatal(err)
	}

	base := filepath.Join(gitdir, "objects", "pack", "pack-"+id.String())
	if err := os.MkdirAll(filepath.Dir(base), 0o755); err != nil {
		t.Fatal(err)
	}
	if err := os.WriteFile(base+".pack", buf.Bytes(), 0o644); err != nil {
		t.Fatal(err)
	}
	if err := os.WriteFile(base+".idx", ibuf.Bytes(), 0o644); err != nil {
		t.Fatal(err)
	}
}

// Finding 2: two perfectly valid, self-contained packs store the same two
// blobs with opposite delta directions (pack A: Q whole, P = delta(Q);
// pack B: P whole, Q = delta(P)). ObjectStorage.DeltaObject serves each hash
// from the most recently hit pack, so a request order that alternates between
// the packs hands the delta selector P-as-delta-of-Q and Q-as-delta-of-P.
// DeltaSelector.fixAndBreakChainsOne recurses base-first and only marks an
// object as fixed after the recursion returns, so it never terminates: the
// process dies with "fatal error: stack overflow" instead of writing a pack.
//
// The crash cannot be recovered, so the encode runs in a child process.
func TestF36CrossPackDeltaCycleOverflowsStack(t *testing.T) {
	if os.Getenv("C07D_CHILD_GITDIR") != "" {
		c07dCrossPackChild(t, os.Getenv("C07D_CHILD_GITDIR"))
		return
	}

	rnd := rand.New(rand.NewSource(2))
	pb := make([]byte, 2000)
	rnd.Read(pb)
	qb := append(append([]byte{}, pb...), []byte("one more line at the end\n")...)

	st := memory.NewStorage()
	p := c07dBlob(t, st, pb)
	q := c07dBlob(t, st, qb)
	onlyA := c07dBlob(t, st, []byte("only in pack a\n"))
	onlyB := c07dBlob(t, st, []byte("only in pack b\n"))

	full := func(o plumbing.EncodedObject) *packfile.ObjectToPack {
		return &packfile.ObjectToPack{Object: o, Original: o}
	}
	deltaOf := func(base *packfile.ObjectToPack, o plumbing.EncodedObject) *packfile.ObjectToPack {
		d, err := packfile.GetDelta(base.Original, o)
		if err != nil {
			t.Fatal(err)
		}
		return &packfile.ObjectToPack{Object: d, Base: base, Original: o, Depth: 1}
	}

	gitdir := t.TempDir()
	if err := os.WriteFile(filepath.Join(gitdir, "HEAD"), []byte("ref: refs/heads/master\n"), 0o644); err != nil {
		t.Fatal(err)
	}
	fq := full(q)
	c07dWritePack(t, gitdir, st, []*packfile.ObjectToPack{fq, deltaOf(fq, p), full(onlyA)})
	fp := full(p)
	c07dWritePack(t, gitdir, st, []*packfile.ObjectToPack{fp, deltaOf(fp, q), full(onlyB)})

	hashes := strings.Join([]string{p.Hash().String(), q.Hash().String(), onlyA.Hash().String(), onlyB.Hash().String()}, ",")

	cmd := exec.Command(os.Args[0], "-test.run=^TestF36CrossPackDeltaCycleOverflowsStack$", "-test.v")
	cmd.Env = append(os.Environ(), "C07D_CHILD_GITDIR="+gitdir, "C07D_CHILD_HASHES="+hashes)
	var out bytes.Buffer
	cmd.Stdout, cmd.Stderr = &out, &out
	done := make(chan error, 1)
	if err := cmd.Start(); err != nil {
		t.Fatal(err)
	}
	go func() { done <- cmd.Wait() }()
	select {
	case err := <-done:
		if err != nil {
			s := out.String()
			if len(s) > 1500 {
				s = s[:1500] + "\n[...]"
			}
			t.Fatalf("encoding from a repository with two valid packs crashed: %v\n%s", err, s)
		}
	case <-time.After(2 * time.Minute):
		cmd.Process.Kill()
		t.Fatal("encoding from a repository with two valid packs did not terminate")
	}
}

func c07dCrossPackChild(t *testing.T, gitdir string) {
	debug.SetMaxStack(64 << 20) // fail fast instead of eating 1 GiB of stack

	hs := strings.Split(os.Getenv("C07D_CHILD_HASHES"), ",")
	p, q, onlyA, onlyB := plumbing.NewHash(hs[0]), plumbing.NewHash(hs[1]), plumbing.NewHash(hs[2]), plumbing.NewHash(hs[3])

	// Which pack is probed first depends on the pack ids; one of the two
	// orders alternates A, B, A or B, A, B. Both must work.
	for _, order := range [][]plumbing.Hash{
		{p, onlyB, q, onlyA},
		{q, onlyA, p, onlyB},
	} {
		st := filesystem.NewStorage(osfs.New(gitdir), cache.NewObjectLRUDefault())
		var buf bytes.Buffer
		if _, err := packfile.NewEncoder(&buf, st, false).Encode(order, 10); err != nil {
			t.Fatalf("Encode: %v", err)
		}
		_ = st.Close()
	}
}
