// copy to: storage/transactional/
//
// F52 (property C19): the transactional ShallowStorage took an empty temporal
// list for "nothing set": SetShallow(empty) in a transaction (the repository
// was unshallowed) was ignored by the view and by Commit. Reported by a
// seeding sub-agent.
package transactional_test

import (
	"testing"

	"github.com/go-git/go-git/v6/plumbing"
	"github.com/go-git/go-git/v6/storage/memory"
	"github.com/go-git/go-git/v6/storage/transactional"
)

const f52HashA = "aaaaaaaaaaaaaaaaaaaaaaaaaaaaaaaaaaaaaaaa"

// P2: SetShallow(empty) inside a transaction (the repository was unshallowed)
// is ignored both by the view and by Commit.
func TestF52_ShallowCleared(t *testing.T) {
	base := memory.NewStorage()
	temporal := memory.NewStorage()
	if err := base.SetShallow([]plumbing.Hash{plumbing.NewHash(f52HashA)}); err != nil {
		t.Fatal(err)
	}

	st := transactional.NewStorage(base, temporal)
	if err := st.SetShallow([]plumbing.Hash{}); err != nil {
		t.Fatal(err)
	}

	got, err := st.Shallow()
	if err != nil {
		t.Fatal(err)
	}
	if len(got) != 0 {
		t.Errorf("view before Commit: Shallow() = %v; want empty", got)
	}

	if err := st.Commit(); err != nil {
		t.Fatal(err)
	}
	got, err = base.Shallow()
	if err != nil {
		t.Fatal(err)
	}
	if len(got) != 0 {
		t.Errorf("base after Commit: Shallow() = %v; want empty", got)
	}
}
