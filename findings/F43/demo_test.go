// copy to: . (repository root, package git). Demonstrates F43 (C29): Commit{All: true} refused with
// ErrEmptyCommit had already rewritten the index (a staged change was lost).
package git

import (
	"errors"
	"path/filepath"
	"testing"
	"time"

	"github.com/go-git/go-billy/v6/util"

	"github.com/go-git/go-git/v6/plumbing"
	"github.com/go-git/go-git/v6/plumbing/object"
)

func preC29dSig() *object.Signature {
	return &object.Signature{Name: "a", Email: "a@example.com", When: time.Unix(1700000000, 0)}
}

func preC29dCommit(t *testing.T, w *Worktree, name, content string) plumbing.Hash {
	t.Helper()
	if dir := filepath.Dir(name); dir != "." {
		if err := w.Filesystem().MkdirAll(dir, 0o755); err != nil {
			t.Fatal(err)
		}
	}
	if err := util.WriteFile(w.Filesystem(), name, []byte(content), 0o644); err != nil {
		t.Fatalf("write %s: %v", name, err)
	}
	if _, err := w.Add(name); err != nil {
		t.Fatalf("add %s: %v", name, err)
	}
	h, err := w.Commit("c "+name, &CommitOptions{Author: preC29dSig()})
	if err != nil {
		t.Fatalf("commit: %v", err)
	}
	return h
}

func preC29dIndexHash(t *testing.T, r *Repository, name string) plumbing.Hash {
	t.Helper()
	idx, err := r.Storer.Index()
	if err != nil {
		t.Fatalf("index unreadable: %v", err)
	}
	e, err := idx.Entry(name)
	if err != nil {
		t.Fatalf("index entry %s: %v", name, err)
	}
	return e.Hash
}

// P2. Commit{All:true} stages every modified file and writes the index
// (autoAddModifiedAndDeleted) before the empty-commit check can refuse.
// git builds `commit -a` in a temporary index and drops it on refusal.
func TestF43CommitAllRefusedEmptyRewritesIndex(t *testing.T) {
	r, err := PlainInit(t.TempDir(), false)
	if err != nil {
		t.Fatal(err)
	}
	defer func() { _ = r.Close() }()
	w, err := r.Worktree()
	if err != nil {
		t.Fatal(err)
	}
	preC29dCommit(t, w, "a.txt", "committed\n")

	// stage a change ...
	if err := util.WriteFile(w.Filesystem(), "a.txt", []byte("staged\n"), 0o644); err != nil {
		t.Fatal(err)
	}
	if _, err := w.Add("a.txt"); err != nil {
		t.Fatal(err)
	}
	// ... then put the committed content back in the worktree only.
	if err := util.WriteFile(w.Filesystem(), "a.txt", []byte("committed\n"), 0o644); err != nil {
		t.Fatal(err)
	}

	before := preC29dIndexHash(t, r, "a.txt")

	_, err = w.Commit("nothing", &CommitOptions{All: true, Author: preC29dSig()})
	if !errors.Is(err, ErrEmptyCommit) {
		t.Fatalf("setup: expected ErrEmptyCommit, got %v", err)
	}

	after := preC29dIndexHash(t, r, "a.txt")
	if before != after {
		t.Fatalf("commit was refused (%v) but the index entry a.txt changed %s -> %s", err, before, after)
	}
}

