// copy to: plumbing/format/index/
//
// F53 (property C12): the index encoder refused negative timestamps but cut a
// time of 2^32 seconds or more (year 2106 on) down to its low 32 bits without
// an error: decoding go-git's output did not give back what was encoded.
// Reported by a seeding sub-agent.
package index

import (
	"bytes"
	"crypto"
	"testing"
	"time"
)

func TestF53_TimestampBeyond32BitsIsRefusedNotTruncated(t *testing.T) {
	when := time.Unix(1<<32+5, 0)
	idx := &Index{Version: 2, Entries: []*Entry{{Name: "a", ModifiedAt: when, CreatedAt: when}}}
	var buf bytes.Buffer
	err := NewEncoder(&buf, crypto.SHA1.New()).Encode(idx)
	if err != nil {
		return // refused: nothing wrong was written
	}
	got := &Index{}
	if err := NewDecoder(bytes.NewReader(buf.Bytes()), crypto.SHA1.New()).Decode(got); err != nil {
		t.Fatal(err)
	}
	if !got.Entries[0].ModifiedAt.Equal(when) {
		t.Fatalf("encoded mtime %v, decoded %v", when.UTC(), got.Entries[0].ModifiedAt.UTC())
	}
}
