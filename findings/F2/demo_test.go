package packfile

import (
	"bytes"
	"compress/zlib"
	"crypto/sha1"
	"encoding/binary"
	"testing"
)

func TestF2ShortInflate(t *testing.T) {
	var pack bytes.Buffer
	pack.WriteString("PACK")
	binary.Write(&pack, binary.BigEndian, uint32(2))
	binary.Write(&pack, binary.BigEndian, uint32(1))
	// blob (type 3), declared size 10
	pack.WriteByte(byte(3<<4 | 10))
	zw := zlib.NewWriter(&pack)
	zw.Write([]byte("hello"))
	zw.Close()
	sum := sha1.Sum(pack.Bytes())
	pack.Write(sum[:])
	p := NewParser(bytes.NewReader(pack.Bytes()))
	_, err := p.Parse()
	t.Logf("parse error: %v", err)
	if err == nil {
		t.Fatal("pack entry declaring 10 bytes but inflating to 5 was accepted")
	}
}
