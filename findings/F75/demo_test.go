// copy to: storage/filesystem/
package filesystem_test

// Reproductions of defects that exist in the UNCHANGED tree (found while
// reading the code for property C01). Each test fails on the scratch base.

import (
	"bytes"
	"os/exec"
	"strings"
	"testing"

	"github.com/go-git/go-billy/v6/osfs"

	"github.com/go-git/go-git/v6/plumbing"
	"github.com/go-git/go-git/v6/plumbing/cache"
	"github.com/go-git/go-git/v6/storage/filesystem"
)

func preexistingC01jRepo(t *testing.T, of string) (string, *filesystem.Storage) {
	t.Helper()
	if _, err := exec.LookPath("git"); err != nil {
		t.Skip("git not installed")
	}
	dir := t.TempDir()
	if out, err := exec.Command("git", "init", "-q", "--bare", "--object-format="+of, dir).CombinedOutput(); err != nil {
		t.Fatalf("git init: %v: %s", err, out)
	}
	return dir, filesystem.NewStorageWithOptions(osfs.New(dir), cache.NewObjectLRUDefault(), filesystem.Options{})
}

// P1. SHA-256 repository, object built as a zero-value plumbing.MemoryObject
// (the form go-git itself uses in several places and that user code commonly
// uses): SetEncodedObject stores the loose object under its SHA-256 name but
// RETURNS the SHA-1 id, because it returns o.Hash() and a MemoryObject without
// a hasher falls back to SHA-1 (plumbing/memory.go, "TODO: Ensure that every
// MemoryObject has an object hasher"). The id go-git reports is not git's id,
// and the object cannot be found under the id that was returned.
func TestPreexistingC01jSHA256SetEncodedObjectReturnsSHA1ID(t *testing.T) {
	dir, st := preexistingC01jRepo(t, "sha256")

	content := []byte("hello")
	o := &plumbing.MemoryObject{}
	o.SetType(plumbing.BlobObject)
	if _, err := o.Write(content); err != nil {
		t.Fatal(err)
	}
	h, err := st.SetEncodedObject(o)
	if err != nil {
		t.Fatal(err)
	}

	cmd := exec.Command("git", "-C", dir, "hash-object", "-t", "blob", "--stdin")
	cmd.Stdin = bytes.NewReader(content)
	out, err := cmd.Output()
	if err != nil {
		t.Fatal(err)
	}
	want := strings.TrimSpace(string(out))
	if h.String() != want {
		t.Errorf("SetEncodedObject returned %s, git computes %s", h, want)
	}
	if _, err := st.EncodedObject(plumbing.BlobObject, h); err != nil {
		t.Errorf("object not readable under the id SetEncodedObject returned (%s): %v", h, err)
	}
}
