// copy to: plumbing/format/packfile/
package packfile_test

import (
	"bytes"
	"encoding/binary"
	"runtime"
	"testing"

	"github.com/go-git/go-git/v6/plumbing/format/idxfile"
	"github.com/go-git/go-git/v6/plumbing/format/packfile"
)

// TestPreexistingC53kIdxWriterPreallocFromPackHeader feeds the pack parser a
// 13 byte input: a pack header that announces 4,000,000 objects, followed by
// one junk byte. The parser itself caps what it reserves from the announced
// count (maxObjectsPrealloc), but the idxfile.Writer observer that every
// fetch/clone into a filesystem repository attaches to the parser
// (storage/filesystem/dotgit/writers.go) does
//
//	w.objects = make(objects, 0, count)
//
// in OnHeader, with count taken straight from the header. 4,000,000 objects
// reserve about 260 MB (64 bytes per entry); the largest count the header can
// hold (0xffffffff) asks for about 275 GB and kills the process.
func TestPreexistingC53kIdxWriterPreallocFromPackHeader(t *testing.T) {
	const announced = 4_000_000

	var pack bytes.Buffer
	pack.WriteString("PACK")
	_ = binary.Write(&pack, binary.BigEndian, uint32(2))
	_ = binary.Write(&pack, binary.BigEndian, uint32(announced))
	pack.WriteByte(0xff)

	var before, after runtime.MemStats
	runtime.GC()
	runtime.ReadMemStats(&before)

	w := new(idxfile.Writer)
	p := packfile.NewParser(bytes.NewReader(pack.Bytes()), packfile.WithScannerObservers(w))
	_, err := p.Parse()

	runtime.ReadMemStats(&after)
	if err == nil {
		t.Fatal("a truncated pack parsed without error")
	}
	allocated := after.TotalAlloc - before.TotalAlloc
	t.Logf("input %d bytes, Parse returned %q after allocating %d bytes", pack.Len(), err, allocated)

	const budget = 32 << 20
	if allocated > budget {
		t.Fatalf("parsing a %d byte pack allocated %d bytes (budget %d): the idx writer reserves room for the object count announced in the header",
			pack.Len(), allocated, budget)
	}
}
