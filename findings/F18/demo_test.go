package packfile

// F18 (property C06): the delta DiffDelta computes for an empty source cannot
// be applied by PatchDelta, which refuses every empty source; git's
// patch_delta accepts insert-only deltas on an empty base. Copy into
// /repo/plumbing/format/packfile and run
//   go test -vet=off -count=1 -run TestF18 ./plumbing/format/packfile/

import (
	"bytes"
	"testing"
)

func TestF18EmptySource(t *testing.T) {
	src := []byte{}
	tgt := []byte("abc")
	d := DiffDelta(src, tgt)
	out, err := PatchDelta(src, d)
	if err != nil || !bytes.Equal(out, tgt) {
		t.Errorf("PatchDelta(empty, DiffDelta(empty, %q)) = %q, %v (delta % x)", tgt, out, err, d)
	}
}
