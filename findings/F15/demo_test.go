package git

// F15 (property C22): createNewObjectPack deletes the loose objects it has
// packed before the pack writer is closed, and the pack only becomes part of
// the repository in PackWriter.Close (save()). If Close fails, RepackObjects
// returns an error and the objects are in neither place. Copy into /repo and
// run
//   go test -vet=off -count=1 -run TestF15 .

import (
	"errors"
	"strings"
	"testing"
	"time"

	"github.com/go-git/go-billy/v6"
	"github.com/go-git/go-billy/v6/osfs"
	"github.com/go-git/go-billy/v6/util"

	"github.com/go-git/go-git/v6/plumbing"
	"github.com/go-git/go-git/v6/plumbing/cache"
	"github.com/go-git/go-git/v6/plumbing/object"
	"github.com/go-git/go-git/v6/storage/filesystem"
)

// renameFailFS fails the rename that installs a pack or its index.
type renameFailFS struct {
	billy.Filesystem
	fail *bool
}

func (f renameFailFS) Rename(from, to string) error {
	if *f.fail && (strings.HasSuffix(to, ".pack") || strings.HasSuffix(to, ".idx") || strings.HasSuffix(to, ".rev")) {
		return errors.New("injected: disk full")
	}
	return f.Filesystem.Rename(from, to)
}

func (f renameFailFS) Chroot(p string) (billy.Filesystem, error) {
	sub, err := f.Filesystem.Chroot(p)
	if err != nil {
		return nil, err
	}
	return renameFailFS{sub, f.fail}, nil
}

func TestF15RepackFailureKeepsObjects(t *testing.T) {
	dir := t.TempDir()
	fail := false
	wt := osfs.New(dir)
	dot0, _ := wt.Chroot(".git")
	dot := renameFailFS{dot0, &fail}
	st := filesystem.NewStorage(dot, cache.NewObjectLRUDefault())
	r, err := Init(st, WithWorkTree(wt))
	if err != nil {
		t.Fatal(err)
	}
	w, _ := r.Worktree()
	if err := util.WriteFile(wt, "a.txt", []byte("content\n"), 0o644); err != nil {
		t.Fatal(err)
	}
	if _, err := w.Add("a.txt"); err != nil {
		t.Fatal(err)
	}
	c, err := w.Commit("c1", &CommitOptions{Author: &object.Signature{Name: "a", Email: "a@b", When: time.Now()}})
	if err != nil {
		t.Fatal(err)
	}
	fail = true
	rerr := r.RepackObjects(&RepackConfig{})
	if rerr == nil {
		t.Skip("the injected failure did not reach the pack writer")
	}
	fail = false
	// a fresh storage on the same directory: what is really on disk
	st2 := filesystem.NewStorage(dot0, cache.NewObjectLRUDefault())
	if _, err := st2.EncodedObject(plumbing.AnyObject, c); err != nil {
		t.Errorf("RepackObjects failed (%v) and the commit %s is gone: %v", rerr, c, err)
	}
}
