package filesystem

// F13 (property C18): with ExclusiveAccess the object directory keeps a cached
// list of loose objects. DotGit.NewObject clears that list when the writer is
// created, not when the object is written (ObjectWriter.Close). A lookup made
// while a writer is still open rebuilds the list without the new object, and
// after the write has returned successfully the object stays invisible. Copy
// into /repo/storage/filesystem and run
//   go test -vet=off -count=1 -run TestF13 ./storage/filesystem/

import (
	"testing"

	"github.com/go-git/go-billy/v6/osfs"

	"github.com/go-git/go-git/v6/plumbing"
	"github.com/go-git/go-git/v6/plumbing/cache"
	format "github.com/go-git/go-git/v6/plumbing/format/config"
)

func TestF13ObjectVisibleAfterWrite(t *testing.T) {
	fs := osfs.New(t.TempDir())
	st := NewStorageWithOptions(fs, cache.NewObjectLRUDefault(), Options{ExclusiveAccess: true})

	content := []byte("hello, exclusive access\n")
	w, err := st.RawObjectWriter(plumbing.BlobObject, int64(len(content)))
	if err != nil {
		t.Fatal(err)
	}
	// a lookup while the writer is still open (any object, here an absent one)
	_ = st.HasEncodedObject(plumbing.NewHash("0123456789012345678901234567890123456789"))
	if _, err := w.Write(content); err != nil {
		t.Fatal(err)
	}
	if err := w.Close(); err != nil {
		t.Fatal(err)
	}
	oh := plumbing.NewHasher(format.SHA1, plumbing.BlobObject, int64(len(content)))
	_, _ = oh.Write(content)
	h := oh.Sum()
	if err := st.HasEncodedObject(h); err != nil {
		t.Errorf("object %s written successfully but HasEncodedObject says: %v", h, err)
	}
	if _, err := st.EncodedObject(plumbing.AnyObject, h); err != nil {
		t.Errorf("object %s written successfully but EncodedObject says: %v", h, err)
	}
}
