// copy to: . (repository root, package git). Demonstrates F33 (C29): a pull refused with
// ErrUnstagedChanges had already moved the current branch to the fetched commit.
package git

import (
	"errors"
	"path/filepath"
	"testing"
	"time"

	"github.com/go-git/go-billy/v6/util"

	"github.com/go-git/go-git/v6/plumbing"
	"github.com/go-git/go-git/v6/plumbing/object"
)

func preC29dSig() *object.Signature {
	return &object.Signature{Name: "a", Email: "a@example.com", When: time.Unix(1700000000, 0)}
}

func preC29dCommit(t *testing.T, w *Worktree, name, content string) plumbing.Hash {
	t.Helper()
	if dir := filepath.Dir(name); dir != "." {
		if err := w.Filesystem().MkdirAll(dir, 0o755); err != nil {
			t.Fatal(err)
		}
	}
	if err := util.WriteFile(w.Filesystem(), name, []byte(content), 0o644); err != nil {
		t.Fatalf("write %s: %v", name, err)
	}
	if _, err := w.Add(name); err != nil {
		t.Fatalf("add %s: %v", name, err)
	}
	h, err := w.Commit("c "+name, &CommitOptions{Author: preC29dSig()})
	if err != nil {
		t.Fatalf("commit: %v", err)
	}
	return h
}

// P1. Pull moves the current branch (updateHEAD) before Reset(MergeReset) can
// refuse with ErrUnstagedChanges. Nothing puts the branch back.
func TestF33PullRefusedOnUnstagedChangesMovesBranch(t *testing.T) {
	remoteDir := t.TempDir()
	remote, err := PlainInit(remoteDir, false)
	if err != nil {
		t.Fatal(err)
	}
	defer func() { _ = remote.Close() }()
	rw, err := remote.Worktree()
	if err != nil {
		t.Fatal(err)
	}
	commitA := preC29dCommit(t, rw, "a.txt", "A\n")

	local, err := PlainClone(t.TempDir(), &CloneOptions{URL: remoteDir})
	if err != nil {
		t.Fatalf("clone: %v", err)
	}
	defer func() { _ = local.Close() }()
	lw, err := local.Worktree()
	if err != nil {
		t.Fatal(err)
	}

	// upstream advances (fast-forwardable)
	commitB := preC29dCommit(t, rw, "b.txt", "B\n")

	// local, unstaged edit of a tracked file
	if err := util.WriteFile(lw.Filesystem(), "a.txt", []byte("local edit\n"), 0o644); err != nil {
		t.Fatal(err)
	}

	headBefore, err := local.Head()
	if err != nil {
		t.Fatal(err)
	}
	if headBefore.Hash() != commitA {
		t.Fatalf("setup: HEAD %s want %s", headBefore.Hash(), commitA)
	}

	pullErr := lw.Pull(&PullOptions{RemoteName: "origin"})
	if !errors.Is(pullErr, ErrUnstagedChanges) {
		t.Fatalf("setup: expected ErrUnstagedChanges, got %v", pullErr)
	}

	headAfter, err := local.Head()
	if err != nil {
		t.Fatal(err)
	}
	if headAfter.Hash() != headBefore.Hash() {
		t.Fatalf("pull was refused (%v) but %s moved %s -> %s (upstream tip %s)",
			pullErr, headAfter.Name(), headBefore.Hash(), headAfter.Hash(), commitB)
	}
}

