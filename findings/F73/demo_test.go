// copy to: plumbing/format/objfile/
package objfile

import (
	"bytes"
	"errors"
	"testing"

	"github.com/go-git/go-git/v6/plumbing"
	"github.com/go-git/go-git/v6/plumbing/format/config"
	"github.com/go-git/go-git/v6/utils/sync"
)

type f73Failing struct{}

func (f73Failing) Write(p []byte) (int, error) { return 0, errors.New("disk full") }

// F73: when the compressor's Close fails (the destination cannot be written),
// Writer.Close hands the zlib writer back to the pool without latching closed.
// The usual deferred second Close hands the same zlib writer back again, so
// the pool holds it twice and two later loose-object writers that are open at
// the same time share one compressor: objects are stored under correct ids
// with wrong bytes (property C01).
func TestF73CloseAfterFailedCloseReturnsCompressorTwice(t *testing.T) {
	w := NewWriter(f73Failing{}, config.SHA1)
	if err := w.WriteHeader(plumbing.BlobObject, 5); err != nil {
		// The header goes to the compressor's buffer; an error here is fine.
		t.Logf("WriteHeader: %v", err)
	}
	_, _ = w.Write([]byte("hello"))
	first := w.Close()
	if first == nil {
		t.Skip("compressor did not report the write error")
	}
	z := w.zlib
	second := w.Close()
	if second != first {
		t.Errorf("second Close returned %v, first returned %v", second, first)
	}

	// Count how often the pool now holds z.
	var got []sync.ZlibWriter
	seen := 0
	for i := 0; i < 8; i++ {
		x := sync.GetZlibWriter(&bytes.Buffer{})
		if x == z {
			seen++
		}
		got = append(got, x)
	}
	_ = got
	if seen > 1 {
		t.Fatalf("the same zlib writer was handed out %d times while still in use", seen)
	}
}
