// copy to: storage/filesystem/mmap/

//go:build darwin || linux

package mmap_test

import (
	"bytes"
	"crypto"
	"encoding/binary"
	"errors"
	iofs "io/fs"
	"testing"
	"time"

	"github.com/go-git/go-billy/v6"
	"github.com/go-git/go-billy/v6/osfs"

	"github.com/go-git/go-git/v6/plumbing"
	"github.com/go-git/go-git/v6/plumbing/format/idxfile"
	"github.com/go-git/go-git/v6/plumbing/format/revfile"
	"github.com/go-git/go-git/v6/plumbing/hash"
	"github.com/go-git/go-git/v6/storage/filesystem/mmap"
)

type preC10jEntry struct {
	id  plumbing.Hash
	off uint64
	crc uint32
}

func preC10jID(first byte) plumbing.Hash {
	raw := make([]byte, 20)
	raw[0], raw[19] = first, 0x5a
	id, _ := plumbing.FromBytes(raw)
	return id
}

// preC10jFiles writes pack/idx/rev files for the entry set with go-git's own
// idx Writer/Encoder and rev Encoder and returns the three raw files. The
// pack is just a header, padding and a trailer: the scanner's index lookups
// never read object data.
func preC10jFiles(t *testing.T, entries []preC10jEntry) (pack, idx, rev []byte) {
	t.Helper()
	var p bytes.Buffer
	p.WriteString("PACK")
	_ = binary.Write(&p, binary.BigEndian, uint32(2))
	_ = binary.Write(&p, binary.BigEndian, uint32(len(entries)))
	ph := hash.New(crypto.SHA1)
	ph.Write(p.Bytes())
	packSum := ph.Sum(nil)
	p.Write(packSum)
	packHash, _ := plumbing.FromBytes(packSum)

	w := new(idxfile.Writer)
	if err := w.OnHeader(uint32(len(entries))); err != nil {
		t.Fatal(err)
	}
	for _, e := range entries {
		w.Add(e.id, e.off, e.crc)
	}
	if err := w.OnFooter(packHash); err != nil {
		t.Fatal(err)
	}
	mem, err := w.Index()
	if err != nil {
		t.Fatal(err)
	}
	var ib, rb bytes.Buffer
	if err := idxfile.Encode(&ib, hash.New(crypto.SHA1), mem); err != nil {
		t.Fatal(err)
	}
	if err := revfile.Encode(&rb, hash.New(crypto.SHA1), mem); err != nil {
		t.Fatal(err)
	}
	return p.Bytes(), ib.Bytes(), rb.Bytes()
}

func preC10jOpen(t *testing.T, fs billy.Filesystem, name string, data []byte) billy.File {
	t.Helper()
	f, err := fs.Create(name)
	if err != nil {
		t.Fatal(err)
	}
	if _, err := f.Write(data); err != nil {
		t.Fatal(err)
	}
	if err := f.Close(); err != nil {
		t.Fatal(err)
	}
	f, err = fs.Open(name)
	if err != nil {
		t.Fatal(err)
	}
	return f
}

// The memory-mapped reader rejects the index of the empty entry set (SHA-1):
// idxMinLen (8+1024+4+4+40 = 1080) is larger than a valid idx without objects
// (8+1024+2*20 = 1072 bytes, exactly what `git index-pack` writes for an empty
// pack and what go-git's own Encoder writes). The in-memory Decoder and the
// LazyIndex accept the same bytes, and the scanner itself accepts the 32-byte
// empty pack (packMinLen = 32) and the SHA-256 variant (1096 bytes).
func TestPreexistingC10jMmapRejectsEmptyIndex(t *testing.T) {
	pack, idx, rev := preC10jFiles(t, nil)
	if len(idx) != 1072 {
		t.Fatalf("unexpected empty idx size %d", len(idx))
	}

	// Control: the other two readers take these bytes.
	mem := idxfile.NewMemoryIndex(20)
	if err := idxfile.NewDecoder(preC10jInput{bytes.NewReader(idx), int64(len(idx))}, hash.New(crypto.SHA1)).Decode(mem); err != nil {
		t.Fatalf("control: in-memory decoder rejects the empty idx: %v", err)
	}

	fs := osfs.New(t.TempDir())
	s, err := mmap.NewPackScanner(20,
		preC10jOpen(t, fs, "e.pack", pack),
		preC10jOpen(t, fs, "e.idx", idx),
		preC10jOpen(t, fs, "e.rev", rev))
	if err != nil {
		t.Fatalf("memory-mapped reader rejects the valid index of the empty entry set: %v", err)
	}
	defer s.Close()
	if _, err := s.FindOffset(preC10jID(0x42)); !errors.Is(err, mmap.ErrObjectNotFound) {
		t.Fatalf("FindOffset(absent) = %v", err)
	}
}

// The memory-mapped reader never compares the reverse index's length with the
// index's object count: lookupOffset derives the number of entries from the
// .rev file size alone. A .rev file that belongs to a smaller pack (here: the
// first two of four entries, otherwise well formed) is accepted, and FindHash
// then reports objects that are in the index as "not found" instead of the
// file being rejected.
func TestPreexistingC10jMmapAnswersFromShortRev(t *testing.T) {
	entries := []preC10jEntry{
		{preC10jID(0x10), 12, 1},
		{preC10jID(0x20), 200, 2},
		{preC10jID(0x30), 300, 3},
		{preC10jID(0x40), 400, 4},
	}
	pack, idx, _ := preC10jFiles(t, entries)
	_, _, shortRev := preC10jFiles(t, entries[:2])

	fs := osfs.New(t.TempDir())
	s, err := mmap.NewPackScanner(20,
		preC10jOpen(t, fs, "p.pack", pack),
		preC10jOpen(t, fs, "p.idx", idx),
		preC10jOpen(t, fs, "p.rev", shortRev))
	if err != nil {
		return // rejected: fine
	}
	defer s.Close()
	for _, e := range entries {
		got, err := s.FindHash(e.off)
		if err != nil {
			t.Errorf("reverse index with 2 entries accepted for an index of 4 objects, and FindHash(%d) = %v although %s is stored there",
				e.off, err, e.id)
			continue
		}
		if got != e.id {
			t.Errorf("FindHash(%d) = %s, want %s", e.off, got, e.id)
		}
	}
}

type preC10jInput struct {
	*bytes.Reader
	size int64
}

func (b preC10jInput) Stat() (iofs.FileInfo, error) { return preC10jInfo(b.size), nil }

type preC10jInfo int64

func (i preC10jInfo) Name() string        { return "" }
func (i preC10jInfo) Size() int64         { return int64(i) }
func (i preC10jInfo) Mode() iofs.FileMode { return 0 }
func (i preC10jInfo) ModTime() time.Time  { return time.Time{} }
func (i preC10jInfo) IsDir() bool         { return false }
func (i preC10jInfo) Sys() any            { return nil }
