// copy to: storage/filesystem/dotgit/
//
// F46 (property C16): the unconditional SetRef opens the reference file with
// O_TRUNC, i.e. it empties the file BEFORE it holds the lock, and after the
// lock is granted it writes at offset 0 without truncating again. A writer
// that completed in between (it held the lock at that moment) has put its own
// content into the file; when that content is longer, its tail survives behind
// the new value and the reference file is corrupt: neither writer's value.
package dotgit

import (
	"os"
	"strings"
	"sync/atomic"
	"testing"

	"github.com/go-git/go-billy/v6"
	"github.com/go-git/go-billy/v6/osfs"

	"github.com/go-git/go-git/v6/plumbing"
)

type f46FS struct {
	billy.Filesystem
	beforeLock func()
	fired      atomic.Bool
}

func (fs *f46FS) OpenFile(name string, flag int, perm os.FileMode) (billy.File, error) {
	f, err := fs.Filesystem.OpenFile(name, flag, perm)
	if err != nil || !strings.HasSuffix(name, "HEAD") {
		return f, err
	}
	return &f46File{File: f, fs: fs}, nil
}

type f46File struct {
	billy.File
	fs *f46FS
}

func (f *f46File) Lock() error {
	if f.fs.beforeLock != nil && f.fs.fired.CompareAndSwap(false, true) {
		f.fs.beforeLock()
	}
	return f.File.(billy.Locker).Lock()
}
func (f *f46File) Unlock() error { return f.File.(billy.Locker).Unlock() }

func TestF46_PlainSetRefTruncatesBeforeLock(t *testing.T) {
	base := osfs.New(t.TempDir())
	slow := &f46FS{Filesystem: base}
	p, w := New(slow), New(base)

	h := plumbing.NewHash("1111111111111111111111111111111111111111")
	long := plumbing.NewSymbolicReference(plumbing.HEAD, "refs/heads/a-branch-with-a-rather-long-name-indeed")
	if err := w.SetRef(plumbing.NewSymbolicReference(plumbing.HEAD, "refs/heads/main"), nil); err != nil {
		t.Fatal(err)
	}
	// P has opened HEAD (and, on the unfixed tree, emptied it); before it gets
	// the lock another writer sets HEAD to a long symbolic value and finishes.
	slow.beforeLock = func() {
		if err := w.SetRef(long, nil); err != nil {
			t.Errorf("second writer: %v", err)
		}
	}
	if err := p.SetRef(plumbing.NewHashReference(plumbing.HEAD, h), nil); err != nil {
		t.Fatal(err)
	}

	raw, err := base.Open("HEAD")
	if err != nil {
		t.Fatal(err)
	}
	defer raw.Close()
	buf := make([]byte, 512)
	n, _ := raw.Read(buf)
	got := string(buf[:n])
	if got != h.String()+"\n" {
		t.Fatalf("HEAD holds %q after the last writer stored %s: the tail of the other writer's value survived", got, h)
	}
	ref, err := w.Ref(plumbing.HEAD)
	if err != nil {
		t.Fatal(err)
	}
	if ref.Type() != plumbing.HashReference || ref.Hash() != h {
		t.Fatalf("HEAD reads back as %v", ref)
	}
}
