package git

// F12 (property C20): the index cache shares *Entry values with the index
// handed to callers (copyIndex is shallow), and doUpdateFileToIndex mutates an
// entry in place. When an add fails part-way (here: an unreadable file makes
// `add --all` fail after another file was already staged in memory), nothing is written to disk, yet the cached index already carries
// the new hash: Storer.Index() no longer equals the on-disk index. Copy into
// /repo and run
//   go test -vet=off -count=1 -run TestF12 .

import (
	"errors"
	"testing"
	"time"

	"github.com/go-git/go-billy/v6"

	"github.com/go-git/go-billy/v6/osfs"
	"github.com/go-git/go-billy/v6/util"

	"github.com/go-git/go-git/v6/plumbing/cache"
	"github.com/go-git/go-git/v6/plumbing/object"
	"github.com/go-git/go-git/v6/storage/filesystem"
)

// unreadableFS fails every attempt to open zfail.txt (an I/O error).
type unreadableFS struct{ billy.Filesystem }

func (f unreadableFS) Open(name string) (billy.File, error) {
	if name == "zfail.txt" {
		return nil, errors.New("injected: input/output error")
	}
	return f.Filesystem.Open(name)
}

func TestF12FailedAddLeavesCacheUnequalToDisk(t *testing.T) {
	shown := false
	for attempt := 0; attempt < 40 && !shown; attempt++ {
		dir := t.TempDir()
		wt0 := osfs.New(dir)
		dot, _ := wt0.Chroot(".git")
		wt := unreadableFS{wt0}
		st := filesystem.NewStorage(dot, cache.NewObjectLRUDefault())
		r, err := Init(st, WithWorkTree(wt))
		if err != nil {
			t.Fatal(err)
		}
		w, _ := r.Worktree()
		_ = util.WriteFile(wt, "a.txt", []byte("one\n"), 0o644)
		if _, err := w.Add("a.txt"); err != nil {
			t.Fatal(err)
		}
		if _, err := w.Commit("c1", &CommitOptions{Author: &object.Signature{Name: "a", Email: "a@b", When: time.Now()}}); err != nil {
			t.Fatal(err)
		}
		_ = util.WriteFile(wt, "a.txt", []byte("two, longer\n"), 0o644)
		_ = util.WriteFile(wt, "zfail.txt", []byte("unreadable\n"), 0o644)
		addErr := w.AddWithOptions(&AddOptions{All: true})
		if addErr == nil {
			t.Skip("add --all did not fail on the unreadable file")
		}
		cached, err := r.Storer.Index()
		if err != nil {
			t.Fatal(err)
		}
		disk, err := filesystem.NewStorage(dot, cache.NewObjectLRUDefault()).Index()
		if err != nil {
			t.Fatal(err)
		}
		ce, _ := cached.Entry("a.txt")
		de, _ := disk.Entry("a.txt")
		if ce.Hash != de.Hash {
			shown = true
			t.Errorf("after the failed add (%v) Storer.Index() has a.txt=%s, the on-disk index has %s", addErr, ce.Hash, de.Hash)
		}
	}
}
