package plumbing

// F21 (property C13): git check-ref-format accepts a component equal to "@"
// (only the whole name "@" is refused: refs.c check_refname_format), go-git's
// ReferenceName.Validate refuses it. Copy into /repo/plumbing and run
//   go test -vet=off -count=1 -run TestF21 ./plumbing/
// The existing test suite asserts the refusal (reference_test.go lists
// "refs/heads/@" as invalid), so the defect is recorded, not repaired.

import (
	"os/exec"
	"testing"
)

func TestF21AtComponent(t *testing.T) {
	for _, n := range []string{"refs/heads/@", "refs/@/x", "refs/tags/@"} {
		if git, err := exec.LookPath("git"); err == nil {
			if err := exec.Command(git, "check-ref-format", n).Run(); err != nil {
				t.Fatalf("git check-ref-format refuses %q: %v", n, err)
			}
		}
		if err := ReferenceName(n).Validate(); err != nil {
			t.Errorf("Validate(%q) = %v, git accepts it", n, err)
		}
	}
}
