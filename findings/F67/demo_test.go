// copy to: storage/filesystem/dotgit/
//
// F67 (property C16, "a reference ... being packed": no reference is lost by
// packing): PackRefs wrote loose SYMBOLIC references into packed-refs as
// "ref: <target> <name>" -- a line the packed-refs format has no place for and
// go-git's own reader rejects -- and then unlinked the loose files: afterwards
// Refs failed with "malformed packed-ref" and the symbolic reference was gone.
// Reported by a seeding sub-agent.
package dotgit

import (
	"testing"

	"github.com/go-git/go-billy/v6/memfs"
	"github.com/go-git/go-billy/v6/osfs"
	"github.com/stretchr/testify/require"

	"github.com/go-git/go-git/v6/plumbing"
)

func TestF67_PackRefsKeepsSymbolicReferences(t *testing.T) {
	for name, dir := range map[string]*DotGit{"memfs": New(memfs.New()), "osfs": New(osfs.New(t.TempDir()))} {
		t.Run(name, func(t *testing.T) {
			require.NoError(t, dir.Initialize())
			h := plumbing.NewHash("1111111111111111111111111111111111111111")
			require.NoError(t, dir.SetRef(plumbing.NewHashReference("refs/heads/main", h), nil))
			require.NoError(t, dir.SetRef(plumbing.NewSymbolicReference("refs/heads/sym", "refs/heads/main"), nil))

			require.NoError(t, dir.PackRefs())

			refs, err := dir.Refs()
			require.NoError(t, err, "Refs after PackRefs")
			got := map[string]string{}
			for _, r := range refs {
				got[r.Name().String()] = r.String()
			}
			require.Contains(t, got, "refs/heads/main")
			require.Contains(t, got, "refs/heads/sym", "the symbolic reference was lost by packing")

			sym, err := dir.Ref("refs/heads/sym")
			require.NoError(t, err)
			require.Equal(t, plumbing.SymbolicReference, sym.Type())
			require.Equal(t, plumbing.ReferenceName("refs/heads/main"), sym.Target())
			main, err := dir.Ref("refs/heads/main")
			require.NoError(t, err)
			require.Equal(t, h, main.Hash())
		})
	}
}
