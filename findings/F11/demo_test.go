package transactional

import (
	"testing"

	"github.com/go-git/go-git/v6/plumbing"
	"github.com/go-git/go-git/v6/storage/memory"
)

// Copy into storage/transactional/. A reference removed inside the transaction
// is absent in the transaction's view; a compare-and-set that expects its old
// base value must not succeed.
func TestF11CASSeesDeletion(t *testing.T) {
	base := memory.NewStorage()
	temporal := memory.NewStorage()
	old := plumbing.NewHashReference("refs/heads/x", plumbing.NewHash("1111111111111111111111111111111111111111"))
	if err := base.SetReference(old); err != nil {
		t.Fatal(err)
	}
	rs := NewReferenceStorage(base, temporal)
	if err := rs.RemoveReference(old.Name()); err != nil {
		t.Fatal(err)
	}
	if _, err := rs.Reference(old.Name()); err != plumbing.ErrReferenceNotFound {
		t.Fatalf("removed reference still visible: %v", err)
	}
	nw := plumbing.NewHashReference("refs/heads/x", plumbing.NewHash("2222222222222222222222222222222222222222"))
	if err := rs.CheckAndSetReference(nw, old); err == nil {
		t.Fatal("CheckAndSetReference succeeded against the base value of a reference deleted in the same transaction")
	}
}
