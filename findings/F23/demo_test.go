// copy to: /repo (package git). Demonstrates F23 (C31): with core.autocrlf=true
// go-git's checkout converts the lone LFs of a blob that already contains CRLF
// ("a\r\nb\n" -> "a\r\nb\r\n"); git (convert.c will_convert_lf_to_crlf) leaves
// such a blob untouched.
package git

import (
	"io"
	"testing"

	"github.com/go-git/go-billy/v6/memfs"
	"github.com/go-git/go-git/v6/plumbing/object"
	"github.com/go-git/go-git/v6/storage/memory"
)

func TestF23MixedLineEndingsCheckout(t *testing.T) {
	fs := memfs.New()
	r, err := Init(memory.NewStorage(), WithWorkTree(fs))
	if err != nil {
		t.Fatal(err)
	}
	w, _ := r.Worktree()
	f, _ := fs.Create("mixed.txt")
	f.Write([]byte("a\r\nb\n"))
	f.Close()
	if _, err := w.Add("mixed.txt"); err != nil {
		t.Fatal(err)
	}
	h, err := w.Commit("x", &CommitOptions{Author: &object.Signature{Name: "x", Email: "x@x"}})
	if err != nil {
		t.Fatal(err)
	}
	cfg, _ := r.Config()
	cfg.Core.AutoCRLF = "true"
	if err := r.SetConfig(cfg); err != nil {
		t.Fatal(err)
	}
	fs.Remove("mixed.txt")
	if err := w.Reset(&ResetOptions{Commit: h, Mode: HardReset}); err != nil {
		t.Fatal(err)
	}
	g, err := fs.Open("mixed.txt")
	if err != nil {
		t.Fatal(err)
	}
	got, _ := io.ReadAll(g)
	if string(got) != "a\r\nb\n" {
		t.Fatalf("checked out %q, git writes %q", got, "a\r\nb\n")
	}
}
