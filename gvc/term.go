package main

// SMT terms with light simplification and an SMT-LIB 2 printer.

import (
	"fmt"
	"math/big"
	"sort"
	"strings"
)

type SortKind int

const (
	SBool SortKind = iota
	SInt
	SBV
	SArr
)

type Sort struct {
	Kind SortKind
	W    int
	Idx  *Sort
	Elem *Sort
}

var (
	BoolSort = &Sort{Kind: SBool}
	IntSort  = &Sort{Kind: SInt}
	bvSorts  = map[int]*Sort{}
	arrSorts = map[string]*Sort{}
)

func BVSort(w int) *Sort {
	if s, ok := bvSorts[w]; ok {
		return s
	}
	s := &Sort{Kind: SBV, W: w}
	bvSorts[w] = s
	return s
}

func ArrSort(idx, elem *Sort) *Sort {
	k := idx.String() + "->" + elem.String()
	if s, ok := arrSorts[k]; ok {
		return s
	}
	s := &Sort{Kind: SArr, Idx: idx, Elem: elem}
	arrSorts[k] = s
	return s
}

func (s *Sort) String() string {
	switch s.Kind {
	case SBool:
		return "Bool"
	case SInt:
		return "Int"
	case SBV:
		return fmt.Sprintf("(_ BitVec %d)", s.W)
	case SArr:
		return fmt.Sprintf("(Array %s %s)", s.Idx, s.Elem)
	}
	return "?"
}

func (s *Sort) Eq(o *Sort) bool { return s.String() == o.String() }

// FuncDecl is an uninterpreted or defined function symbol.
type FuncDecl struct {
	Name   string
	Params []*Sort
	PNames []string
	Ret    *Sort
	Body   *Term // non-nil => define-fun (over Var terms named PNames)
}

type Term struct {
	Op   string // "var","const","app","forall","exists", or an SMT operator
	Args []*Term
	S    *Sort
	Val  *big.Int  // const (Int/BV); Bool uses Op "true"/"false"
	Name string    // var
	Fn   *FuncDecl // app
	// quantifiers
	Bound []*Term   // bound vars
	Pats  [][]*Term // patterns
	str   string
}

var (
	True  = &Term{Op: "true", S: BoolSort}
	False = &Term{Op: "false", S: BoolSort}
)

func Var(name string, s *Sort) *Term { return &Term{Op: "var", Name: name, S: s} }

func IntC(v int64) *Term { return &Term{Op: "const", S: IntSort, Val: big.NewInt(v)} }
func IntBig(v *big.Int) *Term {
	return &Term{Op: "const", S: IntSort, Val: new(big.Int).Set(v)}
}
func BVC(v *big.Int, w int) *Term {
	m := new(big.Int).Lsh(big.NewInt(1), uint(w))
	x := new(big.Int).Mod(v, m)
	return &Term{Op: "const", S: BVSort(w), Val: x}
}
func BVC64(v int64, w int) *Term { return BVC(big.NewInt(v), w) }

func (t *Term) IsConst() bool { return t.Op == "const" }
func (t *Term) IsTrue() bool  { return t.Op == "true" }
func (t *Term) IsFalse() bool { return t.Op == "false" }

func BoolC(b bool) *Term {
	if b {
		return True
	}
	return False
}

func mk(op string, s *Sort, args ...*Term) *Term { return &Term{Op: op, S: s, Args: args} }

func Not(a *Term) *Term {
	switch {
	case a.IsTrue():
		return False
	case a.IsFalse():
		return True
	case a.Op == "not":
		return a.Args[0]
	}
	return mk("not", BoolSort, a)
}

func And(as ...*Term) *Term {
	var out []*Term
	for _, a := range as {
		if a == nil || a.IsTrue() {
			continue
		}
		if a.IsFalse() {
			return False
		}
		if a.Op == "and" {
			out = append(out, a.Args...)
		} else {
			out = append(out, a)
		}
	}
	if len(out) == 0 {
		return True
	}
	if len(out) == 1 {
		return out[0]
	}
	return mk("and", BoolSort, out...)
}

func Or(as ...*Term) *Term {
	var out []*Term
	for _, a := range as {
		if a == nil || a.IsFalse() {
			continue
		}
		if a.IsTrue() {
			return True
		}
		if a.Op == "or" {
			out = append(out, a.Args...)
		} else {
			out = append(out, a)
		}
	}
	if len(out) == 0 {
		return False
	}
	if len(out) == 1 {
		return out[0]
	}
	return mk("or", BoolSort, out...)
}

func Implies(a, b *Term) *Term {
	if a.IsTrue() {
		return b
	}
	if a.IsFalse() || b.IsTrue() {
		return True
	}
	if b.IsFalse() {
		return Not(a)
	}
	return mk("=>", BoolSort, a, b)
}

func Ite(c, a, b *Term) *Term {
	if c.IsTrue() {
		return a
	}
	if c.IsFalse() {
		return b
	}
	if a == b || (a.String() == b.String()) {
		return a
	}
	if a.S.Kind == SBool {
		if a.IsTrue() && b.IsFalse() {
			return c
		}
		if a.IsFalse() && b.IsTrue() {
			return Not(c)
		}
	}
	return mk("ite", a.S, c, a, b)
}

func Eq(a, b *Term) *Term {
	if !a.S.Eq(b.S) {
		panic(fmt.Sprintf("Eq sort mismatch: %s : %s vs %s : %s", a, a.S, b, b.S))
	}
	if a.IsConst() && b.IsConst() {
		return BoolC(a.Val.Cmp(b.Val) == 0)
	}
	if a.S.Kind == SBool {
		if a.IsTrue() {
			return b
		}
		if b.IsTrue() {
			return a
		}
		if a.IsFalse() {
			return Not(b)
		}
		if b.IsFalse() {
			return Not(a)
		}
	}
	if a == b || a.String() == b.String() {
		return True
	}
	return mk("=", BoolSort, a, b)
}

func Neq(a, b *Term) *Term { return Not(Eq(a, b)) }

// ---- Int arithmetic

func IAdd(a, b *Term) *Term {
	if a.IsConst() && b.IsConst() {
		return IntBig(new(big.Int).Add(a.Val, b.Val))
	}
	if a.IsConst() && a.Val.Sign() == 0 {
		return b
	}
	if b.IsConst() && b.Val.Sign() == 0 {
		return a
	}
	// (x + c1) + c2
	if b.IsConst() && a.Op == "+" && len(a.Args) == 2 && a.Args[1].IsConst() {
		return IAdd(a.Args[0], IntBig(new(big.Int).Add(a.Args[1].Val, b.Val)))
	}
	if b.IsConst() && a.Op == "-" && len(a.Args) == 2 && a.Args[1].IsConst() {
		return IAdd(a.Args[0], IntBig(new(big.Int).Sub(b.Val, a.Args[1].Val)))
	}
	if b.IsConst() && b.Val.Sign() < 0 {
		return mk("-", IntSort, a, IntBig(new(big.Int).Neg(b.Val)))
	}
	return mk("+", IntSort, a, b)
}

func ISub(a, b *Term) *Term {
	if a.IsConst() && b.IsConst() {
		return IntBig(new(big.Int).Sub(a.Val, b.Val))
	}
	if b.IsConst() {
		return IAdd(a, IntBig(new(big.Int).Neg(b.Val)))
	}
	if a.String() == b.String() {
		return IntC(0)
	}
	return mk("-", IntSort, a, b)
}

func IMul(a, b *Term) *Term {
	if a.IsConst() && b.IsConst() {
		return IntBig(new(big.Int).Mul(a.Val, b.Val))
	}
	if a.IsConst() && a.Val.Cmp(big.NewInt(1)) == 0 {
		return b
	}
	if b.IsConst() && b.Val.Cmp(big.NewInt(1)) == 0 {
		return a
	}
	if (a.IsConst() && a.Val.Sign() == 0) || (b.IsConst() && b.Val.Sign() == 0) {
		return IntC(0)
	}
	return mk("*", IntSort, a, b)
}

// IDiv / IMod are SMT-LIB euclidean div/mod; callers handle Go truncation.
func IDiv(a, b *Term) *Term {
	if a.IsConst() && b.IsConst() && b.Val.Sign() > 0 {
		q, _ := new(big.Int).DivMod(a.Val, b.Val, new(big.Int))
		return IntBig(q)
	}
	if b.IsConst() && b.Val.Cmp(big.NewInt(1)) == 0 {
		return a
	}
	return mk("div", IntSort, a, b)
}

func IMod(a, b *Term) *Term {
	if a.IsConst() && b.IsConst() && b.Val.Sign() > 0 {
		_, m := new(big.Int).DivMod(a.Val, b.Val, new(big.Int))
		return IntBig(m)
	}
	return mk("mod", IntSort, a, b)
}

func ILe(a, b *Term) *Term {
	if a.IsConst() && b.IsConst() {
		return BoolC(a.Val.Cmp(b.Val) <= 0)
	}
	return mk("<=", BoolSort, a, b)
}
func ILt(a, b *Term) *Term {
	if a.IsConst() && b.IsConst() {
		return BoolC(a.Val.Cmp(b.Val) < 0)
	}
	return mk("<", BoolSort, a, b)
}
func IGe(a, b *Term) *Term { return ILe(b, a) }
func IGt(a, b *Term) *Term { return ILt(b, a) }

// ---- BV

func bvmask(w int) *big.Int {
	m := new(big.Int).Lsh(big.NewInt(1), uint(w))
	return m.Sub(m, big.NewInt(1))
}

func toSigned(v *big.Int, w int) *big.Int {
	h := new(big.Int).Lsh(big.NewInt(1), uint(w-1))
	if v.Cmp(h) >= 0 {
		return new(big.Int).Sub(v, new(big.Int).Lsh(big.NewInt(1), uint(w)))
	}
	return new(big.Int).Set(v)
}

func BVBin(op string, a, b *Term) *Term {
	if a.S.Kind != SBV || b.S.Kind != SBV || a.S.W != b.S.W {
		panic(fmt.Sprintf("BVBin %s sort mismatch %s:%s %s:%s", op, a, a.S, b, b.S))
	}
	w := a.S.W
	if a.IsConst() && b.IsConst() {
		x, y := a.Val, b.Val
		r := new(big.Int)
		ok := true
		switch op {
		case "bvadd":
			r.Add(x, y)
		case "bvsub":
			r.Sub(x, y)
		case "bvmul":
			r.Mul(x, y)
		case "bvand":
			r.And(x, y)
		case "bvor":
			r.Or(x, y)
		case "bvxor":
			r.Xor(x, y)
		case "bvshl":
			if y.Cmp(big.NewInt(int64(w))) >= 0 {
				r.SetInt64(0)
			} else {
				r.Lsh(x, uint(y.Int64()))
			}
		case "bvlshr":
			if y.Cmp(big.NewInt(int64(w))) >= 0 {
				r.SetInt64(0)
			} else {
				r.Rsh(x, uint(y.Int64()))
			}
		case "bvudiv":
			if y.Sign() == 0 {
				ok = false
			} else {
				r.Div(x, y)
			}
		case "bvurem":
			if y.Sign() == 0 {
				ok = false
			} else {
				r.Mod(x, y)
			}
		default:
			ok = false
		}
		if ok {
			return BVC(r, w)
		}
	}
	isZero := func(t *Term) bool { return t.IsConst() && t.Val.Sign() == 0 }
	switch op {
	case "bvadd", "bvor", "bvxor":
		if isZero(a) {
			return b
		}
		if isZero(b) {
			return a
		}
	case "bvsub", "bvshl", "bvlshr", "bvashr":
		if isZero(b) {
			return a
		}
	case "bvand":
		if isZero(a) || isZero(b) {
			return BVC64(0, w)
		}
		if b.IsConst() && b.Val.Cmp(bvmask(w)) == 0 {
			return a
		}
	}
	return mk(op, a.S, a, b)
}

func BVNot(a *Term) *Term {
	if a.IsConst() {
		return BVC(new(big.Int).Xor(a.Val, bvmask(a.S.W)), a.S.W)
	}
	return mk("bvnot", a.S, a)
}
func BVNeg(a *Term) *Term {
	if a.IsConst() {
		return BVC(new(big.Int).Neg(a.Val), a.S.W)
	}
	return mk("bvneg", a.S, a)
}

func BVCmp(op string, a, b *Term) *Term {
	if a.S.Kind != SBV || b.S.Kind != SBV || a.S.W != b.S.W {
		panic(fmt.Sprintf("BVCmp %s sort mismatch %s:%s %s:%s", op, a, a.S, b, b.S))
	}
	if a.IsConst() && b.IsConst() {
		w := a.S.W
		switch op {
		case "bvult":
			return BoolC(a.Val.Cmp(b.Val) < 0)
		case "bvule":
			return BoolC(a.Val.Cmp(b.Val) <= 0)
		case "bvslt":
			return BoolC(toSigned(a.Val, w).Cmp(toSigned(b.Val, w)) < 0)
		case "bvsle":
			return BoolC(toSigned(a.Val, w).Cmp(toSigned(b.Val, w)) <= 0)
		}
	}
	return mk(op, BoolSort, a, b)
}

func BVExtract(hi, lo int, a *Term) *Term {
	if a.IsConst() {
		v := new(big.Int).Rsh(a.Val, uint(lo))
		return BVC(v, hi-lo+1)
	}
	if lo == 0 && hi == a.S.W-1 {
		return a
	}
	t := mk("extract", BVSort(hi-lo+1), a)
	t.Name = fmt.Sprintf("(_ extract %d %d)", hi, lo)
	return t
}

func BVZeroExt(n int, a *Term) *Term {
	if n == 0 {
		return a
	}
	if a.IsConst() {
		return BVC(a.Val, a.S.W+n)
	}
	t := mk("zext", BVSort(a.S.W+n), a)
	t.Name = fmt.Sprintf("(_ zero_extend %d)", n)
	return t
}

func BVSignExt(n int, a *Term) *Term {
	if n == 0 {
		return a
	}
	if a.IsConst() {
		return BVC(toSigned(a.Val, a.S.W), a.S.W+n)
	}
	t := mk("sext", BVSort(a.S.W+n), a)
	t.Name = fmt.Sprintf("(_ sign_extend %d)", n)
	return t
}

// ---- arrays

func Select(a, i *Term) *Term {
	if a.S.Kind != SArr {
		panic("Select on non-array " + a.String())
	}
	if !a.S.Idx.Eq(i.S) {
		panic(fmt.Sprintf("Select index sort mismatch %s[%s:%s]", a, i, i.S))
	}
	// read-over-write with syntactically decidable indices
	for a.Op == "store" {
		j := a.Args[1]
		if j.String() == i.String() {
			return a.Args[2]
		}
		if j.IsConst() && i.IsConst() {
			a = a.Args[0]
			continue
		}
		break
	}
	if a.Op == "constarr" {
		return a.Args[0]
	}
	return mk("select", a.S.Elem, a, i)
}

func Store(a, i, v *Term) *Term {
	if !a.S.Idx.Eq(i.S) || !a.S.Elem.Eq(v.S) {
		panic(fmt.Sprintf("Store sort mismatch %s %s:%s %s:%s", a.S, i, i.S, v, v.S))
	}
	return mk("store", a.S, a, i, v)
}

func ConstArr(s *Sort, v *Term) *Term {
	t := mk("constarr", s, v)
	return t
}

func App(fn *FuncDecl, args ...*Term) *Term {
	if len(args) != len(fn.Params) {
		panic(fmt.Sprintf("App %s: %d args, want %d", fn.Name, len(args), len(fn.Params)))
	}
	for i, a := range args {
		if !a.S.Eq(fn.Params[i]) {
			panic(fmt.Sprintf("App %s arg %d: sort %s, want %s (%s)", fn.Name, i, a.S, fn.Params[i], a))
		}
	}
	return &Term{Op: "app", Fn: fn, Args: args, S: fn.Ret}
}

func Forall(bound []*Term, body *Term, pats ...[]*Term) *Term {
	if body.IsTrue() {
		return True
	}
	return &Term{Op: "forall", S: BoolSort, Bound: bound, Args: []*Term{body}, Pats: pats}
}
func Exists(bound []*Term, body *Term, pats ...[]*Term) *Term {
	if body.IsFalse() {
		return False
	}
	return &Term{Op: "exists", S: BoolSort, Bound: bound, Args: []*Term{body}, Pats: pats}
}

// ---- printing

func smtName(n string) string {
	ok := true
	for _, c := range n {
		if !(c >= 'a' && c <= 'z' || c >= 'A' && c <= 'Z' || c >= '0' && c <= '9' || strings.ContainsRune("_.!$%&*+-/<=>?@^~", c)) {
			ok = false
		}
	}
	if ok && n != "" {
		return n
	}
	return "|" + strings.ReplaceAll(n, "|", "!") + "|"
}

func (t *Term) String() string {
	if t.str != "" {
		return t.str
	}
	var sb strings.Builder
	t.write(&sb)
	t.str = sb.String()
	return t.str
}

func (t *Term) write(sb *strings.Builder) {
	if t.str != "" {
		sb.WriteString(t.str)
		return
	}
	switch t.Op {
	case "true", "false":
		sb.WriteString(t.Op)
	case "var":
		sb.WriteString(smtName(t.Name))
	case "const":
		if t.S.Kind == SInt {
			if t.Val.Sign() < 0 {
				sb.WriteString("(- " + new(big.Int).Neg(t.Val).String() + ")")
			} else {
				sb.WriteString(t.Val.String())
			}
		} else {
			if t.S.W%4 == 0 {
				s := t.Val.Text(16)
				sb.WriteString("#x" + strings.Repeat("0", t.S.W/4-len(s)) + s)
			} else {
				s := t.Val.Text(2)
				sb.WriteString("#b" + strings.Repeat("0", t.S.W-len(s)) + s)
			}
		}
	case "app":
		if len(t.Args) == 0 {
			sb.WriteString(smtName(t.Fn.Name))
			return
		}
		sb.WriteString("(" + smtName(t.Fn.Name))
		for _, a := range t.Args {
			sb.WriteByte(' ')
			a.write(sb)
		}
		sb.WriteByte(')')
	case "extract", "zext", "sext":
		sb.WriteString("(" + t.Name + " ")
		t.Args[0].write(sb)
		sb.WriteByte(')')
	case "constarr":
		sb.WriteString("((as const " + t.S.String() + ") ")
		t.Args[0].write(sb)
		sb.WriteByte(')')
	case "forall", "exists":
		sb.WriteString("(" + t.Op + " (")
		for _, b := range t.Bound {
			sb.WriteString("(" + smtName(b.Name) + " " + b.S.String() + ")")
		}
		sb.WriteString(") ")
		if len(t.Pats) > 0 {
			sb.WriteString("(! ")
		}
		t.Args[0].write(sb)
		for _, p := range t.Pats {
			sb.WriteString(" :pattern (")
			for i, x := range p {
				if i > 0 {
					sb.WriteByte(' ')
				}
				x.write(sb)
			}
			sb.WriteString(")")
		}
		if len(t.Pats) > 0 {
			sb.WriteString(")")
		}
		sb.WriteString(")")
	default:
		sb.WriteString("(" + t.Op)
		for _, a := range t.Args {
			sb.WriteByte(' ')
			a.write(sb)
		}
		sb.WriteByte(')')
	}
}

// Collect free variables and function symbols.
type symtab struct {
	vars  map[string]*Sort
	funcs map[string]*FuncDecl
	seen  map[*Term]bool
}

func newSymtab() *symtab {
	return &symtab{vars: map[string]*Sort{}, funcs: map[string]*FuncDecl{}, seen: map[*Term]bool{}}
}

func (st *symtab) collect(t *Term, bound map[string]bool) {
	if t == nil {
		return
	}
	if len(bound) == 0 {
		if st.seen[t] {
			return
		}
		st.seen[t] = true
	}
	switch t.Op {
	case "var":
		if !bound[t.Name] {
			if old, ok := st.vars[t.Name]; ok && !old.Eq(t.S) {
				panic(fmt.Sprintf("variable %s used at sorts %s and %s", t.Name, old, t.S))
			}
			st.vars[t.Name] = t.S
		}
	case "app":
		if _, ok := st.funcs[t.Fn.Name]; !ok {
			st.funcs[t.Fn.Name] = t.Fn
			if t.Fn.Body != nil {
				b := map[string]bool{}
				for _, p := range t.Fn.PNames {
					b[p] = true
				}
				st.collect(t.Fn.Body, b)
			}
		}
	case "forall", "exists":
		nb := map[string]bool{}
		for k := range bound {
			nb[k] = true
		}
		for _, b := range t.Bound {
			nb[b.Name] = true
		}
		st.collect(t.Args[0], nb)
		for _, p := range t.Pats {
			for _, x := range p {
				st.collect(x, nb)
			}
		}
		return
	}
	for _, a := range t.Args {
		st.collect(a, bound)
	}
}

// declsSMT prints declarations in dependency order (defined functions after
// the symbols their bodies use).
func (st *symtab) declsSMT() string {
	var sb strings.Builder
	var vn []string
	for n := range st.vars {
		vn = append(vn, n)
	}
	sort.Strings(vn)
	for _, n := range vn {
		fmt.Fprintf(&sb, "(declare-fun %s () %s)\n", smtName(n), st.vars[n])
	}
	var fn []string
	for n := range st.funcs {
		fn = append(fn, n)
	}
	sort.Strings(fn)
	done := map[string]bool{}
	var emit func(n string)
	emit = func(n string) {
		if done[n] {
			return
		}
		done[n] = true
		f := st.funcs[n]
		if f.Body == nil {
			fmt.Fprintf(&sb, "(declare-fun %s (", smtName(f.Name))
			for i, p := range f.Params {
				if i > 0 {
					sb.WriteByte(' ')
				}
				sb.WriteString(p.String())
			}
			fmt.Fprintf(&sb, ") %s)\n", f.Ret)
			return
		}
		// dependencies first
		sub := newSymtab()
		b := map[string]bool{}
		for _, p := range f.PNames {
			b[p] = true
		}
		sub.collect(f.Body, b)
		var deps []string
		for d := range sub.funcs {
			deps = append(deps, d)
		}
		sort.Strings(deps)
		for _, d := range deps {
			if _, ok := st.funcs[d]; ok {
				emit(d)
			}
		}
		fmt.Fprintf(&sb, "(define-fun %s (", smtName(f.Name))
		for i, p := range f.Params {
			fmt.Fprintf(&sb, "(%s %s)", smtName(f.PNames[i]), p)
		}
		fmt.Fprintf(&sb, ") %s %s)\n", f.Ret, f.Body)
	}
	for _, n := range fn {
		emit(n)
	}
	return sb.String()
}

// subst replaces variables by name.
func subst(t *Term, m map[string]*Term) *Term {
	if len(m) == 0 {
		return t
	}
	switch t.Op {
	case "var":
		if r, ok := m[t.Name]; ok {
			return r
		}
		return t
	case "const", "true", "false":
		return t
	case "forall", "exists":
		m2 := m
		for _, b := range t.Bound {
			if _, ok := m[b.Name]; ok {
				if &m2 == &m || true {
					m2 = map[string]*Term{}
					for k, v := range m {
						m2[k] = v
					}
				}
				delete(m2, b.Name)
			}
		}
		nt := *t
		nt.str = ""
		nt.Args = []*Term{subst(t.Args[0], m2)}
		nt.Pats = nil
		for _, p := range t.Pats {
			var np []*Term
			for _, x := range p {
				np = append(np, subst(x, m2))
			}
			nt.Pats = append(nt.Pats, np)
		}
		return &nt
	}
	changed := false
	na := make([]*Term, len(t.Args))
	for i, a := range t.Args {
		na[i] = subst(a, m)
		if na[i] != a {
			changed = true
		}
	}
	if !changed {
		return t
	}
	return rebuild(t, na)
}

// rebuild re-applies smart constructors after substitution.
func rebuild(t *Term, na []*Term) *Term {
	switch t.Op {
	case "not":
		return Not(na[0])
	case "and":
		return And(na...)
	case "or":
		return Or(na...)
	case "=>":
		return Implies(na[0], na[1])
	case "ite":
		return Ite(na[0], na[1], na[2])
	case "=":
		return Eq(na[0], na[1])
	case "+":
		r := na[0]
		for _, x := range na[1:] {
			r = IAdd(r, x)
		}
		return r
	case "-":
		if len(na) == 2 {
			return ISub(na[0], na[1])
		}
	case "*":
		if len(na) == 2 {
			return IMul(na[0], na[1])
		}
	case "<=":
		return ILe(na[0], na[1])
	case "<":
		return ILt(na[0], na[1])
	case "select":
		return Select(na[0], na[1])
	case "bvadd", "bvsub", "bvmul", "bvand", "bvor", "bvxor", "bvshl", "bvlshr", "bvashr", "bvudiv", "bvurem", "bvsdiv", "bvsrem":
		return BVBin(t.Op, na[0], na[1])
	case "bvult", "bvule", "bvslt", "bvsle":
		return BVCmp(t.Op, na[0], na[1])
	}
	nt := *t
	nt.str = ""
	nt.Args = na
	return &nt
}
