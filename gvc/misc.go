package main

import (
	"go/types"
	"hash/fnv"
)

// funcID: stable non-zero identity of a named function used as a value.
func funcID(name string) *Term {
	h := fnv.New32a()
	h.Write([]byte(name))
	return IntC(int64(2000000) + int64(h.Sum32()%1000000000))
}

// havocObject: every field of the struct that v points to becomes unknown.
func (x *Exec) havocObject(st *State, t types.Type, v Value) {
	if t == nil {
		return
	}
	pt, ok := t.Underlying().(*types.Pointer)
	if !ok {
		return
	}
	su, ok := pt.Elem().Underlying().(*types.Struct)
	if !ok {
		return
	}
	sc, ok := v.(Sc)
	if !ok {
		return
	}
	for i := 0; i < su.NumFields(); i++ {
		f := su.Field(i)
		x.havocHeapAt(st, typeKey(pt.Elem())+"."+f.Name(), f.Type(), sc.T)
	}
}
