package main

import (
	"strconv"
	"fmt"
	"go/ast"
	"go/constant"
	"go/types"
	"hash/fnv"
	"math/big"
	"regexp/syntax"
	"sort"
	"strings"
)

// funcID: stable non-zero identity of a named function used as a value.
func funcID(name string) *Term {
	h := fnv.New32a()
	h.Write([]byte(name))
	return IntC(int64(2000000) + int64(h.Sum32()%1000000000))
}

// trivialLoopSpec: coarse units may leave loops without an invariant; the loop
// is then cut with the invariant `true` (everything it assigns is unknown
// afterwards), which is sound and loses only precision.
func trivialLoopSpec(spec *LoopSpec) *LoopSpec {
	n := &LoopSpec{}
	if spec != nil {
		*n = *spec
	}
	e, _ := parseContractExpr("true")
	n.Invariants = []*Clause{{Label: "trivial", Src: "true", Expr: e}}
	return n
}

// monitorCall implements the monitor rule (DESIGN 2.6) for a call
// owner.mu.Lock() / owner.mu.Unlock() when the unit declares
// `monitor owner invariant I`: Lock forgets everything about the owner's
// fields and assumes I; Unlock must re-establish I. With mutual exclusion of
// sync.Mutex (trusted) I then holds whenever the mutex is free, under every
// schedule.
func (x *Exec) monitorCall(e *ast.CallExpr, st *State, lock bool) bool {
	if x.c == nil || len(x.c.Monitors) == 0 {
		return false
	}
	sel, ok := unparen(e.Fun).(*ast.SelectorExpr)
	if !ok {
		return false
	}
	musel, ok := unparen(sel.X).(*ast.SelectorExpr)
	if !ok {
		return false
	}
	owner := types.ExprString(musel.X)
	matched := false
	for _, m := range x.c.Monitors {
		if m.Pattern != owner {
			continue
		}
		if !matched && lock {
			ov := x.expr(musel.X, st)
			x.havocObject(st, x.info.TypeOf(musel.X), ov)
		}
		matched = true
		old := x.curPos
		x.curPos = e.Pos()
		g := x.cbool(m.C.Expr, x.cctx(st, m.C))
		x.curPos = old
		if lock {
			st.add(g)
		} else {
			x.obligeClause(st, "mon", x.site("mon@Unlock", e)+"."+m.C.Label, m.C, g, e.Pos())
		}
	}
	if matched {
		x.assumes["sync.Mutex provides mutual exclusion: the monitor invariant of "+owner+" holds whenever its mutex is free"] = true
	}
	return matched
}

// checkSinks: `sink <callee> requires <expr>` clauses of the unit under
// verification are obligations at every call of that callee, evaluated in
// the caller's scope (locals visible at the call).
// callOrdinal: position of call e among the calls of a function or method
// named name in the unit's source text (1-based, source order).
func (x *Exec) callOrdinal(e *ast.CallExpr, name string) int {
	if x.unit == nil || x.unit.Decl == nil {
		return 0
	}
	n, found := 0, 0
	ast.Inspect(x.unit.Decl, func(nd ast.Node) bool {
		c, ok := nd.(*ast.CallExpr)
		if !ok {
			return true
		}
		callee := ""
		switch f := unparen(c.Fun).(type) {
		case *ast.Ident:
			callee = f.Name
		case *ast.SelectorExpr:
			callee = f.Sel.Name
		}
		if callee == name {
			n++
			if c == e {
				found = n
			}
		}
		return true
	})
	return found
}

func (x *Exec) checkSinks(e *ast.CallExpr, st *State, calleeShort string, args []Value, recv Value) {
	if x.c == nil {
		return
	}
	for _, sk := range x.c.Sinks {
		pat := sk.Pattern
		// `Name#k`: only the k-th call of Name in the unit's source text
		wantOrd := 0
		if i := strings.LastIndex(pat, "#"); i > 0 {
			if n, err := strconv.Atoi(pat[i+1:]); err == nil {
				wantOrd = n
				pat = pat[:i]
			}
		}
		if strings.HasSuffix(pat, "*") {
			// `pkg/path.Prefix*`: every function of that package whose name starts so
			if !strings.HasPrefix(calleeShort, pat[:len(pat)-1]) {
				continue
			}
		} else if !(calleeShort == pat || strings.HasSuffix(calleeShort, "."+pat) || strings.HasSuffix(calleeShort, ")."+pat)) {
			continue
		}
		if wantOrd > 0 && x.callOrdinal(e, pat) != wantOrd {
			continue
		}
		old := x.curPos
		x.curPos = e.Pos()
		if len(x.inlineStack) > 0 {
			// inside an inlined helper: the clause speaks about the unit's own variables
			x.curPos = x.inlineSite
		}
		cx := x.cctx(st, sk.C)
		// arg0, arg1, ... denote the values passed at this call
		cx.env = map[string]cbind{}
		for i, a := range args {
			if i < len(e.Args) {
				cx.env[fmt.Sprintf("arg%d", i)] = cbind{a, x.info.TypeOf(e.Args[i])}
			}
		}
		// recv denotes the receiver of a method call
		if sel, ok := e.Fun.(*ast.SelectorExpr); ok && recv != nil {
			if rt := x.info.TypeOf(sel.X); rt != nil {
				if _, isSc := recv.(Sc); isSc {
					if _, isStruct := rt.Underlying().(*types.Struct); isStruct {
						// pointer-receiver method on an addressable struct:
						// the receiver value is the address of its cell
						rt = types.NewPointer(rt)
					}
				}
				cx.env["recv"] = cbind{recv, rt}
			}
		}
		g := x.cbool(sk.C.Expr, cx)
		x.curPos = old
		label := sk.C.Label
		if label == "" {
			label = "s"
		}
		name := x.site("sink@"+pat, e) + "." + label
		// known-finding carve-outs (as for postconditions): the canary is the
		// obligation restricted to the finding's input class and must fail,
		// the obligation outside the class must discharge
		var classes []*Term
		for _, kf := range x.c.KFs {
			if kf.Label != label {
				continue
			}
			x.curPos = e.Pos()
			if len(x.inlineStack) > 0 {
				x.curPos = x.inlineSite
			}
			kc := x.cctx(st, kf.When)
			kc.env = cx.env
			w := x.cbool(kf.When.Expr, kc)
			x.curPos = old
			classes = append(classes, w)
			sk2 := st.clone()
			sk2.add(w)
			savedProps := x.curProps
			if len(sk.C.Props) > 0 {
				x.curProps = sk.C.Props
			}
			o := x.oblige(sk2, "sink", name+".kf."+kf.ID, label, g, e.Pos())
			x.curProps = savedProps
			o.MustFail = true
			o.KF = kf.ID
		}
		if len(classes) > 0 {
			sn := st.clone()
			sn.add(Not(Or(classes...)))
			x.obligeClause(sn, "sink", name, sk.C, g, e.Pos())
			// later code may rely on the sink condition only outside the class
			st.add(Or(append(classes, g)...))
			continue
		}
		x.obligeClause(st, "sink", name, sk.C, g, e.Pos())
		st.add(g)
	}
}

// checkCallbackLit verifies the body of a function literal passed as a
// callback: parameters are arbitrary (restricted by the contract's
// `lit N requires` clause), captured variables have their current values.
func (x *Exec) checkCallbackLit(lit *ast.FuncLit, st *State) { x.checkLit(lit, st, false) }

// checkLit: spawn is true for `go func() {...}()`: the body runs once, from the
// state at the go statement (nothing it assigns has been assigned by an earlier
// invocation).
func (x *Exec) checkLit(lit *ast.FuncLit, st *State, spawn bool) {
	ord := x.litOrd[lit]
	var invs, oks []*Clause
	if x.c != nil {
		invs = x.c.LitInvariants[ord]
		oks = x.c.LitOkInvariants[ord]
	}
	evalAt := func(s *State, cl *Clause) *Term {
		old := x.curPos
		x.curPos = lit.Body.Pos()
		g := x.cbool(cl.Expr, x.cctx(s, cl))
		x.curPos = old
		return g
	}
	// the invariants hold when the callee is called
	for _, inv := range append(append([]*Clause(nil), invs...), oks...) {
		x.obligeClause(st, "lit", fmt.Sprintf("lit%d.inv.init.%s", ord, inv.Label), inv, evalAt(st, inv), lit.Pos())
	}
	s2 := st.clone()
	// an arbitrary invocation: whatever earlier invocations assigned is unknown
	if !spawn {
		x.havoc(s2, x.modifiedIn(lit.Body))
	}
	sig, _ := x.info.TypeOf(lit).(*types.Signature)
	if sig != nil {
		for i := 0; i < sig.Params().Len(); i++ {
			p := sig.Params().At(i)
			s2.vars[p] = x.fresh(s2, p.Type(), p.Name())
		}
	}
	if x.c != nil {
		for _, r := range x.c.LitRequires[ord] {
			s2.add(evalAt(s2, r))
		}
	}
	for _, inv := range append(append([]*Clause(nil), invs...), oks...) {
		s2.add(evalAt(s2, inv))
	}
	var rets []*State
	old := x.litReturn
	x.litReturn = &rets
	ends := x.stmts(lit.Body.List, []*State{s2}, nil)
	x.litReturn = old
	if x.c == nil {
		return
	}
	all := append(rets, ends...)
	for ri, rs := range all {
		// one obligation per return path of the literal
		at := ""
		if len(all) > 1 {
			at = fmt.Sprintf("@ret%d", ri+1)
		}
		for _, en := range x.c.LitEnsures[ord] {
			x.obligeClause(rs, "lit", fmt.Sprintf("lit%d.ensures.%s%s", ord, en.Label, at), en, evalAt(rs, en), lit.Pos())
		}
		for _, inv := range invs {
			x.obligeClause(rs, "lit", fmt.Sprintf("lit%d.inv.keep.%s%s", ord, inv.Label, at), inv, evalAt(rs, inv), lit.Pos())
		}
		for _, inv := range x.c.LitOkInvariants[ord] {
			g := evalAt(rs, inv)
			if lr, ok := rs.ghosts["litresult"].(Sc); ok && lr.T.S.Kind == SInt {
				g = Implies(Eq(lr.T, IntC(0)), g)
			}
			x.obligeClause(rs, "lit", fmt.Sprintf("lit%d.inv.keep.%s%s", ord, inv.Label, at), inv, g, lit.Pos())
		}
	}
}

// assumeLitInvariants: after the callee returns, the callback's invariants
// hold (they held at the call and every invocation preserves them); the
// ok-invariants hold if the call returned a nil error.
func (x *Exec) assumeLitInvariants(lit *ast.FuncLit, st *State, res Value) {
	if x.c == nil {
		return
	}
	at := func(cl *Clause) *Term {
		old := x.curPos
		x.curPos = lit.Body.Pos()
		g := x.cbool(cl.Expr, x.cctx(st, cl))
		x.curPos = old
		return g
	}
	for _, inv := range x.c.LitInvariants[x.litOrd[lit]] {
		st.add(at(inv))
	}
	oks := x.c.LitOkInvariants[x.litOrd[lit]]
	if len(oks) == 0 {
		return
	}
	var errT *Term
	switch r := res.(type) {
	case Sc:
		if r.T.S.Kind == SInt {
			errT = r.T
		}
	case Tu:
		if n := len(r.Vs); n > 0 {
			if sc, ok := r.Vs[n-1].(Sc); ok && sc.T.S.Kind == SInt {
				errT = sc.T
			}
		}
	}
	if errT == nil {
		return
	}
	x.assumes["a callee taking a callback returns a nil error only if every invocation of the callback did"] = true
	for _, inv := range oks {
		st.add(Implies(Eq(errT, IntC(0)), at(inv)))
	}
}

// mentionsArrayEq: t contains an equality between array-sorted terms one of
// which is arr (slice identity in a postcondition).
func mentionsArrayEq(t *Term, arr *Term) bool {
	if t.Op == "=" && len(t.Args) == 2 && t.Args[0].S.Kind == SArr {
		if t.Args[0].String() == arr.String() || t.Args[1].String() == arr.String() {
			return true
		}
	}
	for _, a := range t.Args {
		if mentionsArrayEq(a, arr) {
			return true
		}
	}
	return false
}

// noteWrite records a heap write for the frame check. Writes to objects
// allocated by the unit itself are invisible to callers and not recorded.
func (x *Exec) noteWrite(key string, obj *Term) {
	if obj != nil {
		for _, a := range x.allocd {
			if a == obj {
				return
			}
		}
	}
	if x.written == nil {
		x.written = map[string]bool{}
	}
	x.written[key] = true
}

// checkFrame: every heap key the unit writes (directly or through callee
// contracts) must be declared in its modifies clause. A missing declaration
// would make the contract unsound at call sites, so it is a unit error.
func (x *Exec) checkFrame() {
	if x.c == nil || x.coarse || x.unit.Fn == nil {
		return
	}
	declared := map[string]bool{}
	all := false
	for _, mod := range x.c.Modifies {
		mod = strings.TrimSpace(mod)
		switch {
		case mod == "*":
			all = true
		case strings.HasPrefix(mod, "map:"):
			declared[mod] = true
		case strings.HasPrefix(mod, "*"):
			if pt := x.paramType(x.c, x.unit.Fn, mod[1:]); pt != nil {
				if p, ok := pt.Underlying().(*types.Pointer); ok {
					declared[typeKey(p.Elem())] = true
				}
			}
		case strings.Contains(mod, "@"):
			if key, ft := x.typedFieldKey(x.c.Pkg, mod[strings.Index(mod, "@")+1:]); ft != nil {
				declared[key] = true
			}
		case strings.HasSuffix(mod, "[*]"):
		default:
			i := strings.Index(mod, ".")
			if i < 0 {
				continue
			}
			if j := strings.LastIndex(mod, ".#"); j >= 0 {
				for _, g := range x.eng.cs.expandGhost(mod[j+2:]) {
					declared["ghost:"+g] = true
				}
				continue
			}
			pname, f := mod[:i], mod[i+1:]
			if strings.HasPrefix(f, "#") {
				for _, g := range x.eng.cs.expandGhost(strings.TrimPrefix(f, "#")) {
					declared["ghost:"+g] = true
				}
				continue
			}
			if pt := x.paramType(x.c, x.unit.Fn, pname); pt != nil {
				if ks, ok := x.heapKeyForField(pt, f); ok {
					for _, k := range ks {
						declared[k] = true
					}
				}
			}
		}
	}
	if all {
		return
	}
	var missing []string
	for k := range x.written {
		if k == "*" {
			missing = append(missing, "everything (call to a callee without contract or with modifies *)")
			continue
		}
		ok := declared[k]
		for d := range declared {
			if strings.HasPrefix(k, d+".") {
				ok = true
			}
		}
		if !ok {
			missing = append(missing, k)
		}
	}
	sort.Strings(missing)
	for _, k := range missing {
		x.fail(x.unit.Decl.Pos(), "frame: the unit writes %s but its contract does not list it under modifies", trimPkg(k))
	}
}

// typedFieldKey resolves "T.f" or "pkg.T.f" (relative to package path from)
// to the heap key of field f of struct type T and the field's type.
func (x *Exec) typedFieldKey(from, tf string) (string, types.Type) {
	i := strings.LastIndex(tf, ".")
	if i < 0 {
		return "", nil
	}
	tn, fname := tf[:i], tf[i+1:]
	pkgPath := from
	if j := strings.LastIndex(tn, "."); j >= 0 {
		if p := x.eng.importedPkg(from, tn[:j]); p != nil {
			pkgPath = p.Path()
		}
		tn = tn[j+1:]
	}
	tp := x.eng.typesPkg(pkgPath)
	if tp == nil {
		return "", nil
	}
	obj := tp.Scope().Lookup(tn)
	if obj == nil {
		return "", nil
	}
	su, ok := obj.Type().Underlying().(*types.Struct)
	if !ok {
		return "", nil
	}
	for k := 0; k < su.NumFields(); k++ {
		if su.Field(k).Name() == fname {
			return typeKey(obj.Type()) + "." + fname, su.Field(k).Type()
		}
	}
	return "", nil
}

// havocObject: every field of the struct that v points to becomes unknown.
func (x *Exec) havocObject(st *State, t types.Type, v Value) {
	if t == nil {
		return
	}
	if mt, isMap := t.Underlying().(*types.Map); isMap {
		// a map passed to an abstracted callee: its content is unknown afterwards
		if sc, ok := v.(Sc); ok && sc.T.S.Eq(IntSort) {
			x.noteWrite("map:has", sc.T)
			h := x.mapHasArr(st)
			st.heap["map:has"] = Store(h, sc.T, x.freshTerm("hvmap", ArrSort(IntSort, BoolSort)))
			for _, c := range x.layout(mt.Elem()) {
				key := "map:val:" + typeKey(mt.Elem()) + c.Suffix
				arr := x.heapGet(st, key, ArrSort(IntSort, ArrSort(IntSort, c.S)))
				st.heap[key] = Store(arr, sc.T, x.freshTerm("hvmap", ArrSort(IntSort, c.S)))
			}
		}
		return
	}
	pt, ok := t.Underlying().(*types.Pointer)
	if !ok {
		return
	}
	su, ok := pt.Elem().Underlying().(*types.Struct)
	if !ok {
		// a pointer to a plain cell (*error, *int, *[]T): the cell is unknown afterwards
		if sc, isSc := v.(Sc); isSc && sc.T.S.Eq(IntSort) {
			x.havocHeapAt(st, typeKey(pt.Elem()), pt.Elem(), sc.T)
		}
		return
	}
	sc, ok := v.(Sc)
	if !ok {
		return
	}
	for i := 0; i < su.NumFields(); i++ {
		f := su.Field(i)
		x.havocHeapAt(st, typeKey(pt.Elem())+"."+f.Name(), f.Type(), sc.T)
	}
}

// regexMatch gives (*regexp.Regexp).MatchString its exact meaning when the
// receiver is a package-level variable initialised with
// regexp.MustCompile(<constant>), never assigned, and the pattern is a single
// character class of ASCII runes: the string matches iff one of its bytes is
// in the class (bytes >= 0x80 only form runes >= 0x80 or U+FFFD). The class is
// read from the real source on every run with regexp/syntax.
func (x *Exec) regexMatch(e *ast.CallExpr, st *State, args []Value) (Value, bool) {
	sel, ok := unparen(e.Fun).(*ast.SelectorExpr)
	if !ok || len(args) != 1 {
		return nil, false
	}
	id, ok := unparen(sel.X).(*ast.Ident)
	if !ok {
		return nil, false
	}
	o, ok := x.info.ObjectOf(id).(*types.Var)
	if !ok || o.Pkg() == nil || o.Parent() != o.Pkg().Scope() {
		return nil, false
	}
	p := x.eng.pkgs[o.Pkg().Path()]
	if p == nil {
		return nil, false
	}
	init, never := findGlobalInit(p, o, true)
	if init == nil || !never {
		return nil, false
	}
	call, ok := unparen(init).(*ast.CallExpr)
	if !ok || len(call.Args) != 1 {
		return nil, false
	}
	if f, ok := p.TypesInfo.Uses[selIdent(call.Fun)].(*types.Func); !ok || f.FullName() != "regexp.MustCompile" {
		return nil, false
	}
	tv, ok := p.TypesInfo.Types[call.Args[0]]
	if !ok || tv.Value == nil || tv.Value.Kind() != constant.String {
		return nil, false
	}
	re, err := syntax.Parse(constant.StringVal(tv.Value), syntax.Perl)
	if err != nil {
		return nil, false
	}
	re = re.Simplify()
	var ranges []rune
	switch re.Op {
	case syntax.OpCharClass:
		ranges = re.Rune
	case syntax.OpLiteral:
		if len(re.Rune) != 1 || re.Flags&syntax.FoldCase != 0 {
			return nil, false
		}
		ranges = []rune{re.Rune[0], re.Rune[0]}
	default:
		return nil, false
	}
	for _, r := range ranges {
		if r >= 0x80 {
			return nil, false
		}
	}
	sl, ok := args[0].(Sl)
	if !ok {
		return nil, false
	}
	comp := x.slComp(st, sl)[0]
	k := Var(fmt.Sprintf("k!%d", x.nextEpoch()), x.ar.idxSort())
	b := Select(comp, x.idxAdd(sl.Off, k))
	bi := intInfo{8, false}
	var in []*Term
	for i := 0; i+1 < len(ranges); i += 2 {
		lo := x.ar.constInt(big.NewInt(int64(ranges[i])), bi)
		hi := x.ar.constInt(big.NewInt(int64(ranges[i+1])), bi)
		if ranges[i] == 0 {
			// bytes are never negative: no lower bound to state
			in = append(in, x.ar.le(b, hi, bi))
			continue
		}
		in = append(in, And(x.ar.le(lo, b, bi), x.ar.le(b, hi, bi)))
	}
	x.assumes["regexp semantics: "+o.Name()+" = "+tv.Value.ExactString()+" is a single ASCII character class (read from the source each run)"] = true
	return Sc{Exists([]*Term{k}, And(x.ar.le(x.ar.idxC(0), k, idxII), x.ar.lt(k, sl.Len, idxII), Or(in...)))}, true
}

func selIdent(e ast.Expr) *ast.Ident {
	switch v := unparen(e).(type) {
	case *ast.Ident:
		return v
	case *ast.SelectorExpr:
		return v.Sel
	}
	return nil
}
