package main

// Zero-annotation safety sweep (exploration aid, not a registered check): every
// function of the given packages that has no contract is run as a coarse unit
// with `opt safety` and an empty contract, so that the run-time safety
// obligations the engine generates on its own (index and slice bounds, nil
// dereference, division, shift, make length) are the only ones. A failing
// obligation is a candidate: either the function relies on a precondition its
// callers establish (then it needs a contract) or an input can make it panic.

import (
	"fmt"
	"go/ast"
	"go/types"
	"os"
	"regexp"
	"sort"
	"strings"
	"time"
)

func runSweep(repo, verif string, args []string) int {
	if len(args) == 0 {
		fmt.Fprintln(os.Stderr, "usage: gvc sweep <pkg-path-suffix> [func-regexp] [kinds]")
		return 2
	}
	e := newEngine(repo, verif)
	if err := e.loadContracts(); err != nil {
		fmt.Fprintln(os.Stderr, "gvc:", err)
		return 2
	}
	pkg := args[0]
	if !strings.HasPrefix(pkg, "github.com/") {
		pkg = "github.com/go-git/go-git/v6/" + strings.TrimPrefix(pkg, "./")
	}
	var rx *regexp.Regexp
	if len(args) > 1 && args[1] != "" {
		rx = regexp.MustCompile(args[1])
	}
	kinds := map[string]bool{"idx": true, "slice": true, "nil": true, "div": true, "shift": true, "makelen": true, "panic": true}
	if len(args) > 2 {
		kinds = map[string]bool{}
		for _, k := range strings.Split(args[2], ",") {
			kinds[k] = true
		}
	}
	if err := e.loadPackages([]string{pkg}); err != nil {
		fmt.Fprintln(os.Stderr, "gvc:", err)
		return 2
	}
	p := e.pkgs[pkg]
	if p == nil {
		fmt.Fprintln(os.Stderr, "gvc: package not loaded:", pkg)
		return 2
	}
	var cs []*Contract
	for _, f := range p.Syntax {
		if strings.HasSuffix(p.Fset.Position(f.Pos()).Filename, "_test.go") {
			continue
		}
		for _, d := range f.Decls {
			fd, ok := d.(*ast.FuncDecl)
			if !ok || fd.Body == nil {
				continue
			}
			fn, ok := p.TypesInfo.Defs[fd.Name].(*types.Func)
			if !ok {
				continue
			}
			key := funcKey(fn)
			if _, has := e.cs.Funcs[key]; has {
				continue
			}
			if rx != nil && !rx.MatchString(key) {
				continue
			}
			c := &Contract{Key: key, Short: trimPkg(key), Pkg: pkg, Theory: "int", Props: []string{"SWEEP"},
				Opts: map[string]string{"coarse": "true", "frame": "args", "safety": "true"}, Loops: map[int]*LoopSpec{}}
			e.cs.Funcs[key] = c
			cs = append(cs, c)
		}
	}
	sort.Slice(cs, func(i, j int) bool { return cs[i].Key < cs[j].Key })
	work, _ := os.MkdirTemp("", "gvcsweep")
	defer os.RemoveAll(work)
	d := &Discharger{workDir: work, timeout: 5 * time.Second, sem: make(chan struct{}, 12)}
	results, err := verifyContracts(e, cs, d)
	if err != nil {
		fmt.Fprintln(os.Stderr, "gvc:", err)
		return 2
	}
	nU, nRej, nFail := 0, 0, 0
	for _, r := range results {
		nU++
		if len(r.Errors) > 0 {
			nRej++
			fmt.Printf("-- %s: outside the subset: %s\n", trimPkg(r.Contract.Key), firstLines(strings.Join(r.Errors, "; "), 1))
			continue
		}
		for _, o := range r.Obligs {
			if o.Cover || o.MustFail || !kinds[o.Kind] {
				continue
			}
			if o.Status == "unsat" || o.Status == "unsat1" {
				continue
			}
			nFail++
			fmt.Printf("?? %-8s %-7s %s  [%s]\n", o.Kind, o.Status, o.Name, o.Pos)
			if o.Model != nil {
				var ks []string
				for k := range o.Model {
					if !strings.Contains(k, "[") {
						ks = append(ks, k)
					}
				}
				sort.Strings(ks)
				var parts []string
				for _, k := range ks {
					if v := o.Model[k]; !strings.HasPrefix(v, "(error") {
						parts = append(parts, k+"="+v)
					}
				}
				if len(parts) > 12 {
					parts = parts[:12]
				}
				fmt.Printf("       model: %s\n", strings.Join(parts, " "))
			}
		}
	}
	fmt.Printf("sweep %s: %d functions, %d outside the subset, %d candidate obligations\n", trimPkg(pkg), nU, nRej, nFail)
	return 0
}
