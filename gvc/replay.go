package main

// Replay of solver counterexamples against the real code (DESIGN section 5).
//
// A sat model gives values for the unit's inputs. A generated in-package test
// builds them, calls the REAL function through `go test -overlay` (nothing is
// written into the repository) and prints what happened. Safety obligations
// are reproduced by the panic; postconditions are reproduced by binding the
// observed results into the postcondition and asking the solver whether it is
// false for them.

import (
	"bytes"
	"context"
	"encoding/json"
	"fmt"
	"go/types"
	"os"
	"os/exec"
	"path/filepath"
	"sort"
	"strconv"
	"strings"
	"time"
)

type replayFile struct {
	Property   string            `json:"property"`
	Obligation string            `json:"obligation"`
	Kind       string            `json:"kind"`
	Unit       string            `json:"unit"`
	At         string            `json:"at"`
	Status     string            `json:"solver_status"`
	Solver     string            `json:"solver"`
	Model      map[string]string `json:"model,omitempty"`
	SolverOut  string            `json:"solver_output,omitempty"`
	Reproduced bool              `json:"reproduced"`
	ReplayNote string            `json:"replay_note"`
	TestSource string            `json:"test_source,omitempty"`
	TestOutput string            `json:"test_output,omitempty"`
	SMT        string            `json:"smt,omitempty"`
}

func newReplayFile(prop string, o *Obligation) *replayFile {
	rf := &replayFile{Property: prop, Obligation: trimPkg(o.Name), Kind: o.Kind, Unit: trimPkg(o.Unit), At: o.Pos,
		Status: o.Status, Solver: o.Solver, Model: o.Model, SolverOut: firstLines(o.Output, 20)}
	if o.SMT != "" {
		if b, err := os.ReadFile(o.SMT); err == nil && len(b) < 200000 {
			rf.SMT = string(b)
		}
	}
	return rf
}

func writeReplay(dir, prop string, o *Obligation, r *UnitResult, e *Engine, note string) string {
	rf := newReplayFile(prop, o)
	rf.ReplayNote = note
	return saveReplay(dir, o, rf)
}

func saveReplay(dir string, o *Obligation, rf *replayFile) string {
	path := filepath.Join(dir, safeFile(trimPkg(o.Name))+".json")
	b, _ := json.MarshalIndent(rf, "", " ")
	os.WriteFile(path, b, 0o644)
	return path
}

// replayObligation tries to reproduce a failed obligation on the real code.
func replayObligation(dir, prop string, o *Obligation, r *UnitResult, e *Engine) (string, bool) {
	rf := newReplayFile(prop, o)
	if o.Status != "sat" || o.Model == nil {
		rf.ReplayNote = fmt.Sprintf("no model (solver answered %s): not executed", o.Status)
		return saveReplay(dir, o, rf), false
	}
	ok, note, src, out := runReplayTest(e, r, o)
	rf.Reproduced = ok
	rf.ReplayNote = note
	rf.TestSource = src
	rf.TestOutput = out
	return saveReplay(dir, o, rf), ok
}

// ReplayInfo is collected while the unit is executed symbolically.
type ReplayInfo struct {
	PkgDir   string
	PkgName  string
	PkgPath  string
	Call     string // call expression template with %s args
	Recv     *ModelInput
	Params   []replayParam
	Results  []replayResult
	Posts    map[string]*Term // label -> postcondition over entry inputs and ResultSyms
	PostAsm  []*Term          // entry assumptions (requires, type facts)
	ErrIDs   map[string]int64
	Arith    *Arith
	Inputs   []ModelInput
	Unsupp   string // reason the unit cannot be replayed
	FuncName string
	IsMethod bool
	RecvPtr  bool
	RecvType string
}

type replayParam struct {
	Name string
	T    types.Type
}

type replayResult struct {
	Name string
	T    types.Type
	V    Value
}

// buildReplayInfo: called at the end of Exec.run.
func (x *Exec) buildReplayInfo() *ReplayInfo {
	u := x.unit
	ri := &ReplayInfo{PkgPath: u.Pkg.PkgPath, PkgName: u.Pkg.Types.Name(), Posts: map[string]*Term{}, ErrIDs: x.errIDs,
		Arith: x.ar, Inputs: x.inputs, FuncName: u.Fn.Name()}
	if len(u.Pkg.GoFiles) > 0 {
		ri.PkgDir = filepath.Dir(u.Pkg.GoFiles[0])
	}
	sig := x.sig
	supported := func(t types.Type) bool {
		if _, ok := intInfoOf(t); ok {
			return true
		}
		if isBoolType(t) || isStringType(t) {
			return true
		}
		if ok, _ := sliceElemBasic(t); ok {
			return true
		}
		return false
	}
	if sig.Recv() != nil {
		ri.IsMethod = true
		rt := sig.Recv().Type()
		if p, ok := rt.Underlying().(*types.Pointer); ok {
			ri.RecvPtr = true
			rt = p.Elem()
		}
		if _, ok := rt.Underlying().(*types.Struct); !ok && !supported(rt) {
			ri.Unsupp = "receiver type " + rt.String()
		}
		ri.RecvType = types.TypeString(rt, func(p *types.Package) string {
			if p == u.Pkg.Types {
				return ""
			}
			return p.Name()
		})
	}
	for i := 0; i < sig.Params().Len(); i++ {
		p := sig.Params().At(i)
		ok := supported(p.Type())
		if !ok {
			if pt, isPtr := p.Type().Underlying().(*types.Pointer); isPtr {
				if _, isSt := pt.Elem().Underlying().(*types.Struct); isSt {
					ok = true
				}
			}
		}
		if !ok {
			ri.Unsupp = "parameter type " + p.Type().String()
		}
		name := p.Name()
		if name == "" || name == "_" {
			name = fmt.Sprintf("arg%d", i)
		}
		ri.Params = append(ri.Params, replayParam{name, p.Type()})
	}
	// generic postconditions over fresh result symbols
	st := x.entry.clone()
	for i, r := range x.results {
		v := x.fresh(st, r.Type(), "out_"+x.resNames[i])
		st.vars[r] = v
		ri.Results = append(ri.Results, replayResult{x.resNames[i], r.Type(), v})
	}
	nerr := len(x.errs)
	if x.c != nil {
		oldPos := x.curPos
		x.curPos = 0
		for _, en := range x.c.Ensures {
			ri.Posts[en.Label] = x.cbool(en.Expr, x.cctx(st, en))
		}
		x.curPos = oldPos
	}
	x.errs = x.errs[:nerr]
	ri.PostAsm = st.assume
	return ri
}

func goIntLit(v string, t types.Type) (string, bool) {
	ii, ok := intInfoOf(t)
	if !ok {
		return "", false
	}
	w := 0
	if ii.Signed {
		w = ii.W
	}
	s, ok := smtValueToInt(v, w)
	if !ok {
		return "", false
	}
	if !ii.Signed && strings.HasPrefix(s, "-") {
		return "", false
	}
	return s, true
}

func typeStr(t types.Type, self *types.Package, imports map[string]string) string {
	return types.TypeString(t, func(p *types.Package) string {
		if p == self {
			return ""
		}
		imports[p.Path()] = p.Name()
		return p.Name()
	})
}

// bytesLit renders a byte slice literal from the model.
func bytesLit(o *Obligation, name string) (string, int, bool) {
	ls, ok := smtValueToInt(o.Model[name+".len"], 64)
	if !ok {
		return "", 0, false
	}
	n, err := strconv.Atoi(ls)
	if err != nil || n < 0 || n > 1<<20 {
		return "", 0, false
	}
	var sb strings.Builder
	fmt.Fprintf(&sb, "func() []byte { b := make([]byte, %d); ", n)
	for i := 0; i < n && i < 48; i++ {
		vs, ok := smtValueToInt(o.Model[fmt.Sprintf("%s[%d]", name, i)], 0)
		if !ok {
			vs = "0"
		}
		if vs != "0" {
			fmt.Fprintf(&sb, "b[%d] = %s; ", i, vs)
		}
	}
	sb.WriteString("return b }()")
	return sb.String(), n, true
}

func runReplayTest(e *Engine, r *UnitResult, o *Obligation) (bool, string, string, string) {
	ri := r.Replay
	if ri == nil {
		return false, "no replay information for this unit", "", ""
	}
	if ri.Unsupp != "" {
		return false, "replay generator does not build inputs of this shape: " + ri.Unsupp, "", ""
	}
	u := r.Unit
	imports := map[string]string{"fmt": "fmt", "testing": "testing", "errors": "errors"}
	var body strings.Builder
	var args []string
	// literal for a named input
	var lit func(name string, t types.Type) (string, bool)
	lit = func(name string, t types.Type) (string, bool) {
		if _, ok := intInfoOf(t); ok {
			v, ok := goIntLit(o.Model[name], t)
			if !ok {
				return "", false
			}
			return fmt.Sprintf("%s(%s)", typeStr(t, u.Pkg.Types, imports), v), true
		}
		if isBoolType(t) {
			v := o.Model[name]
			if v != "true" && v != "false" {
				return "", false
			}
			return v, true
		}
		if ok, _ := sliceElemBasic(t); ok {
			l, _, ok := bytesLit(o, name)
			if !ok {
				return "", false
			}
			if isStringType(t) {
				return fmt.Sprintf("%s(%s)", typeStr(t, u.Pkg.Types, imports), l), true
			}
			return fmt.Sprintf("%s(%s)", typeStr(t, u.Pkg.Types, imports), l), true
		}
		if pt, ok := t.Underlying().(*types.Pointer); ok {
			if su, ok := pt.Elem().Underlying().(*types.Struct); ok {
				if v, ok := smtValueToInt(o.Model[name], 0); ok && v == "0" {
					return "nil", true
				}
				if _, known := o.Model[name]; !known || strings.Count(name, ".") >= 2 {
					// the model does not describe this object (or it is nested too
					// deeply, e.g. self-referential structs): leave the field nil
					return "", false
				}
				var fs []string
				for i := 0; i < su.NumFields(); i++ {
					f := su.Field(i)
					if fl, ok := lit(name+"."+f.Name(), f.Type()); ok {
						fs = append(fs, f.Name()+": "+fl)
					}
				}
				return fmt.Sprintf("&%s{%s}", typeStr(pt.Elem(), u.Pkg.Types, imports), strings.Join(fs, ", ")), true
			}
		}
		if su, ok := t.Underlying().(*types.Struct); ok {
			var fs []string
			for i := 0; i < su.NumFields(); i++ {
				f := su.Field(i)
				if fl, ok := lit(name+"."+f.Name(), f.Type()); ok {
					fs = append(fs, f.Name()+": "+fl)
				}
			}
			return fmt.Sprintf("%s{%s}", typeStr(t, u.Pkg.Types, imports), strings.Join(fs, ", ")), true
		}
		return "", false
	}
	sig := u.Fn.Type().(*types.Signature)
	callee := ri.FuncName
	if ri.IsMethod {
		rl, ok := lit(sig.Recv().Name(), sig.Recv().Type())
		if !ok || rl == "nil" {
			return false, "cannot build the receiver from the model", "", ""
		}
		fmt.Fprintf(&body, "\trecv := %s\n", rl)
		callee = "recv." + ri.FuncName
	}
	for i, p := range ri.Params {
		l, ok := lit(p.Name, p.T)
		if !ok {
			return false, "model has no usable value for parameter " + p.Name, "", ""
		}
		fmt.Fprintf(&body, "\ta%d := %s\n", i, l)
		args = append(args, fmt.Sprintf("a%d", i))
	}
	var outs []string
	for i := range ri.Results {
		outs = append(outs, fmt.Sprintf("r%d", i))
	}
	call := fmt.Sprintf("%s(%s)", callee, strings.Join(args, ", "))
	if len(outs) > 0 {
		fmt.Fprintf(&body, "\t%s := %s\n", strings.Join(outs, ", "), call)
	} else {
		fmt.Fprintf(&body, "\t%s\n", call)
	}
	// sentinels known to the unit
	var sentinels []string
	for k := range ri.ErrIDs {
		if strings.HasPrefix(k, ri.PkgPath+".") {
			sentinels = append(sentinels, strings.TrimPrefix(k, ri.PkgPath+"."))
		}
	}
	sort.Strings(sentinels)
	for i, res := range ri.Results {
		switch {
		case isErrorType(res.T) || errorLike(res.T):
			fmt.Fprintf(&body, "\tif r%d == nil { fmt.Println(\"GVC-REPLAY out %s error nil\") } else {\n\t\tis := \"\"\n", i, res.Name)
			for _, s := range sentinels {
				fmt.Fprintf(&body, "\t\tif errors.Is(r%d, %s) { is += \"%s,\" }\n", i, s, s)
			}
			fmt.Fprintf(&body, "\t\tfmt.Printf(\"GVC-REPLAY out %s error nonnil %%s\\n\", is)\n\t}\n", res.Name)
		case isBoolType(res.T):
			fmt.Fprintf(&body, "\tfmt.Printf(\"GVC-REPLAY out %s bool %%v\\n\", r%d)\n", res.Name, i)
		default:
			if ii, ok := intInfoOf(res.T); ok {
				conv := "uint64"
				if ii.Signed {
					conv = "int64"
				}
				fmt.Fprintf(&body, "\tfmt.Printf(\"GVC-REPLAY out %s int %%d\\n\", %s(r%d))\n", res.Name, conv, i)
			} else if ok, _ := sliceElemBasic(res.T); ok {
				fmt.Fprintf(&body, "\tfmt.Printf(\"GVC-REPLAY out %s bytes %%d %%x\\n\", len(r%d), []byte(r%d))\n", res.Name, i, i)
			} else {
				fmt.Fprintf(&body, "\t_ = r%d\n\tfmt.Println(\"GVC-REPLAY out %s opaque\")\n", i, res.Name)
			}
		}
	}
	var src strings.Builder
	fmt.Fprintf(&src, "package %s\n\nimport (\n", ri.PkgName)
	var ips []string
	for p := range imports {
		ips = append(ips, p)
	}
	sort.Strings(ips)
	for _, p := range ips {
		fmt.Fprintf(&src, "\t%q\n", p)
	}
	src.WriteString(")\n\nvar _ = errors.Is\n\n")
	src.WriteString("func TestGvcReplay(t *testing.T) {\n\tdefer func() {\n\t\tif r := recover(); r != nil {\n\t\t\tfmt.Printf(\"GVC-REPLAY panic %v\\n\", r)\n\t\t}\n\t}()\n")
	src.WriteString(body.String())
	src.WriteString("\tfmt.Println(\"GVC-REPLAY done\")\n}\n")
	source := src.String()

	tmp, err := os.MkdirTemp("", "gvc-replay")
	if err != nil {
		return false, "cannot create scratch directory", source, ""
	}
	defer os.RemoveAll(tmp)
	tf := filepath.Join(tmp, "replay_test.go")
	os.WriteFile(tf, []byte(source), 0o644)
	ov := map[string]interface{}{"Replace": map[string]string{filepath.Join(ri.PkgDir, "gvc_replay_generated_test.go"): tf}}
	ovb, _ := json.Marshal(ov)
	ovf := filepath.Join(tmp, "overlay.json")
	os.WriteFile(ovf, ovb, 0o644)
	ctx, cancel := context.WithTimeout(context.Background(), 180*time.Second)
	defer cancel()
	cmd := exec.CommandContext(ctx, "go", "test", "-overlay", ovf, "-vet=off", "-v", "-count=1", "-timeout", "60s", "-run", "^TestGvcReplay$", ".")
	cmd.Dir = ri.PkgDir
	cmd.Env = append(os.Environ(), "GOFLAGS=-mod=mod", "GOPROXY=off", "GOSUMDB=off", "GOTOOLCHAIN=local", "GOCACHE="+envOr("GOCACHE", filepath.Join(os.Getenv("HOME"), ".cache/go-build")))
	var out bytes.Buffer
	cmd.Stdout = &out
	cmd.Stderr = &out
	cmd.Run()
	output := out.String()
	if len(output) > 6000 {
		output = output[:6000]
	}
	var lines []string
	for _, l := range strings.Split(output, "\n") {
		if strings.HasPrefix(l, "GVC-REPLAY ") {
			lines = append(lines, strings.TrimPrefix(l, "GVC-REPLAY "))
		}
	}
	if len(lines) == 0 {
		return false, "replay test did not run (build or set-up failure)", source, output
	}
	panicked := ""
	for _, l := range lines {
		if strings.HasPrefix(l, "panic ") {
			panicked = strings.TrimPrefix(l, "panic ")
		}
	}
	switch o.Kind {
	case "idx", "slice", "div", "shift", "makelen", "nil", "panic":
		if panicked != "" {
			return true, "the real function panics on the model input: " + panicked, source, output
		}
		return false, "the real function did not panic on the model input", source, output
	case "post":
		if panicked != "" {
			return true, "the real function panics on the model input (postcondition not reached): " + panicked, source, output
		}
		ok, note := checkPostWithOutputs(ri, o, lines)
		return ok, note, source, output
	}
	if panicked != "" {
		return true, "the real function panics on the model input: " + panicked, source, output
	}
	return false, fmt.Sprintf("obligation kind %s has no observable effect to compare; executed without panic", o.Kind), source, output
}

// checkPostWithOutputs binds model inputs and observed outputs and asks
// whether the postcondition is false for them.
func checkPostWithOutputs(ri *ReplayInfo, o *Obligation, lines []string) (bool, string) {
	post := ri.Posts[o.Label]
	if post == nil {
		return false, "no generic postcondition for label " + o.Label
	}
	ar := ri.Arith
	var asm []*Term
	asm = append(asm, ri.PostAsm...)
	constOf := func(v string, s *Sort) (*Term, bool) {
		iv, ok := smtValueToInt(v, 0)
		if !ok {
			return nil, false
		}
		switch s.Kind {
		case SBool:
			return BoolC(iv == "true"), true
		case SInt:
			b, ok := new(bigInt).SetString(iv, 10)
			if !ok {
				return nil, false
			}
			return IntBig(b), true
		case SBV:
			b, ok := new(bigInt).SetString(iv, 10)
			if !ok {
				return nil, false
			}
			return BVC(b, s.W), true
		}
		return nil, false
	}
	for _, in := range ri.Inputs {
		switch in.Kind {
		case "int", "bool", "ptr":
			if c, ok := constOf(o.Model[in.Name], in.T.S); ok {
				asm = append(asm, Eq(in.T, c))
			}
		case "bytes", "string":
			lc, ok := constOf(o.Model[in.Name+".len"], in.Len.S)
			if !ok {
				continue
			}
			asm = append(asm, Eq(in.Len, lc))
			n := int(lc.Val.Int64())
			for i := 0; i < n && i < 48; i++ {
				v, ok := constOf(o.Model[fmt.Sprintf("%s[%d]", in.Name, i)], in.Arr.S.Elem)
				if !ok {
					v, _ = constOf("0", in.Arr.S.Elem)
				}
				var idx *Term
				if ar.BV {
					idx = BVBin("bvadd", in.Off, BVC64(int64(i), 64))
				} else {
					idx = IAdd(in.Off, IntC(int64(i)))
				}
				asm = append(asm, Eq(Select(in.Arr, idx), v))
			}
			if n > 48 {
				return false, "model input longer than 48 bytes: outputs not compared"
			}
		}
	}
	// outputs
	outs := map[string][]string{}
	for _, l := range lines {
		f := strings.Fields(l)
		if len(f) >= 3 && f[0] == "out" {
			outs[f[1]] = f[2:]
		}
	}
	st := newSymtab()
	st.collect(post, nil)
	for _, res := range ri.Results {
		f, ok := outs[res.Name]
		if !ok {
			return false, "result " + res.Name + " not observed"
		}
		switch v := res.V.(type) {
		case Sc:
			switch f[0] {
			case "int":
				b, ok := new(bigInt).SetString(f[1], 10)
				if !ok {
					return false, "bad observed integer"
				}
				if v.T.S.Kind == SBV {
					asm = append(asm, Eq(v.T, BVC(b, v.T.S.W)))
				} else {
					asm = append(asm, Eq(v.T, IntBig(b)))
				}
			case "bool":
				asm = append(asm, Eq(v.T, BoolC(f[1] == "true")))
			case "error":
				if f[1] == "nil" {
					asm = append(asm, Eq(v.T, IntC(0)))
				} else {
					asm = append(asm, IGt(v.T, IntC(0)))
					is := map[string]bool{}
					if len(f) > 2 {
						for _, s := range strings.Split(f[2], ",") {
							if s != "" {
								is[s] = true
							}
						}
					}
					for k, id := range ri.ErrIDs {
						short := strings.TrimPrefix(k, ri.PkgPath+".")
						if short == k {
							continue
						}
						rel := Or(Eq(v.T, IntC(id)), Eq(errRoot(v.T), IntC(id)))
						if is[short] {
							asm = append(asm, rel)
						} else {
							asm = append(asm, Not(rel))
						}
					}
				}
			default:
				return false, "result " + res.Name + " is not observable"
			}
		case Sl:
			if f[0] != "bytes" {
				return false, "result " + res.Name + " is not observable"
			}
			if len(v.Comp) == 1 && mentionsArrayEq(post, v.Comp[0]) {
				return false, "postcondition speaks about slice identity of " + res.Name + ": not comparable with observed bytes"
			}
			if v.Off.Op == "var" {
				// a fresh result: its position in its backing array is immaterial
				asm = append(asm, Eq(v.Off, ar.idxC(0)))
			}
			n, _ := strconv.Atoi(f[1])
			asm = append(asm, Eq(v.Len, ar.idxC(int64(n))))
			hexs := ""
			if len(f) > 2 {
				hexs = f[2]
			}
			if n > 256 {
				return false, "observed result longer than 256 bytes: not compared"
			}
			for i := 0; i < n && 2*i+1 < len(hexs); i++ {
				bv, _ := strconv.ParseUint(hexs[2*i:2*i+2], 16, 8)
				var idx *Term
				if ar.BV {
					idx = BVBin("bvadd", v.Off, BVC64(int64(i), 64))
				} else {
					idx = IAdd(v.Off, IntC(int64(i)))
				}
				var c *Term
				if ar.BV {
					c = BVC64(int64(bv), 8)
				} else {
					c = IntC(int64(bv))
				}
				asm = append(asm, Eq(Select(v.Comp[0], idx), c))
			}
		default:
			return false, "result " + res.Name + " is not observable"
		}
	}
	q := &Obligation{Name: "replay", Assume: asm, Goal: post}
	tmp, err := os.MkdirTemp("", "gvc-replayq")
	if err != nil {
		return false, "no scratch directory"
	}
	defer os.RemoveAll(tmp)
	fn := filepath.Join(tmp, "q.smt2")
	os.WriteFile(fn, []byte(q.smt(nil, false)), 0o644)
	r := runSolver(context.Background(), solvers[0], fn, 20*time.Second)
	switch r.status {
	case "sat":
		return true, "the real function's outputs on the model input falsify the postcondition " + o.Label
	case "unsat":
		return false, "the real function's outputs on the model input satisfy the postcondition (counterexample is spurious for the real code)"
	}
	return false, "could not evaluate the postcondition on the observed outputs (" + r.status + ")"
}
