package main

// Replay of solver counterexamples against the real code (DESIGN section 5).

import (
	"encoding/json"
	"fmt"
	"os"
	"path/filepath"
)

type replayFile struct {
	Property   string            `json:"property"`
	Obligation string            `json:"obligation"`
	Kind       string            `json:"kind"`
	Unit       string            `json:"unit"`
	At         string            `json:"at"`
	Status     string            `json:"solver_status"`
	Solver     string            `json:"solver"`
	Model      map[string]string `json:"model,omitempty"`
	SolverOut  string            `json:"solver_output,omitempty"`
	Reproduced bool              `json:"reproduced"`
	ReplayNote string            `json:"replay_note"`
	TestSource string            `json:"test_source,omitempty"`
	TestOutput string            `json:"test_output,omitempty"`
	SMT        string            `json:"smt,omitempty"`
}

func writeReplay(dir, prop string, o *Obligation, r *UnitResult, e *Engine, note string) string {
	rf := &replayFile{Property: prop, Obligation: trimPkg(o.Name), Kind: o.Kind, Unit: trimPkg(o.Unit), At: o.Pos,
		Status: o.Status, Solver: o.Solver, Model: o.Model, SolverOut: firstLines(o.Output, 20), ReplayNote: note}
	if o.SMT != "" {
		if b, err := os.ReadFile(o.SMT); err == nil && len(b) < 200000 {
			rf.SMT = string(b)
		}
	}
	return saveReplay(dir, o, rf)
}

func saveReplay(dir string, o *Obligation, rf *replayFile) string {
	path := filepath.Join(dir, safeFile(trimPkg(o.Name))+".json")
	b, _ := json.MarshalIndent(rf, "", " ")
	os.WriteFile(path, b, 0o644)
	return path
}

// replayObligation tries to reproduce a failed obligation on the real code.
func replayObligation(dir, prop string, o *Obligation, r *UnitResult, e *Engine) (string, bool) {
	rf := &replayFile{Property: prop, Obligation: trimPkg(o.Name), Kind: o.Kind, Unit: trimPkg(o.Unit), At: o.Pos,
		Status: o.Status, Solver: o.Solver, Model: o.Model, SolverOut: firstLines(o.Output, 20)}
	if o.SMT != "" {
		if b, err := os.ReadFile(o.SMT); err == nil && len(b) < 200000 {
			rf.SMT = string(b)
		}
	}
	if o.Status != "sat" || o.Model == nil {
		rf.ReplayNote = fmt.Sprintf("no model (solver answered %s): not executed", o.Status)
		return saveReplay(dir, o, rf), false
	}
	ok, note, src, out := runReplayTest(e, r, o)
	rf.Reproduced = ok
	rf.ReplayNote = note
	rf.TestSource = src
	rf.TestOutput = out
	return saveReplay(dir, o, rf), ok
}

func runReplayTest(e *Engine, r *UnitResult, o *Obligation) (bool, string, string, string) {
	return false, "replay generator not available for this unit shape", "", ""
}
