package main

// Calls: builtins, conversions, contract application, abstraction.

import (
	"sort"
	"fmt"
	"go/ast"
	"go/token"
	"go/types"
	"strings"
)

func (x *Exec) calleeOf(call *ast.CallExpr) *types.Func {
	switch f := call.Fun.(type) {
	case *ast.Ident:
		if fn, ok := x.info.Uses[f].(*types.Func); ok {
			return fn
		}
	case *ast.SelectorExpr:
		if sel := x.info.Selections[f]; sel != nil {
			if fn, ok := sel.Obj().(*types.Func); ok {
				return fn
			}
			return nil
		}
		if fn, ok := x.info.Uses[f.Sel].(*types.Func); ok {
			return fn
		}
	case *ast.ParenExpr:
		return x.calleeOf(&ast.CallExpr{Fun: f.X, Args: call.Args})
	case *ast.IndexExpr:
		// generic instantiation f[T](...)
		return x.calleeOf(&ast.CallExpr{Fun: f.X, Args: call.Args})
	}
	return nil
}

func funcKey(fn *types.Func) string {
	if o := fn.Origin(); o != nil {
		fn = o
	}
	return fn.FullName()
}

func (x *Exec) isPureBuiltinFunc(fn *types.Func) bool {
	switch funcKey(fn) {
	case "fmt.Errorf", "errors.New", "errors.Is", "fmt.Sprintf", "errors.As", "errors.Join":
		return true
	}
	if fn.Pkg() != nil && strings.HasSuffix(fn.Pkg().Path(), "/utils/trace") {
		return true
	}
	return false
}

func (x *Exec) call(e *ast.CallExpr, st *State) Value {
	// conversion
	if tv, ok := x.info.Types[e.Fun]; ok && tv.IsType() {
		return x.conversion(e, st, tv.Type)
	}
	// builtin
	if id, ok := unparen(e.Fun).(*ast.Ident); ok {
		if b, ok := x.info.Uses[id].(*types.Builtin); ok {
			return x.builtin(e, st, b.Name())
		}
	}
	// immediately invoked literal
	if lit, ok := unparen(e.Fun).(*ast.FuncLit); ok && len(e.Args) == 0 {
		outs := x.inlineLit(lit, st)
		if len(outs) == 1 {
			*st = *outs[0]
			return Tu{}
		}
		return x.opaque(st, e, "function literal call with several exits")
	}
	var recvVal Value
	if sel, ok := unparen(e.Fun).(*ast.SelectorExpr); ok {
		if s := x.info.Selections[sel]; s != nil && s.Kind() == types.MethodVal {
			recvVal = x.recvValue(sel, s, st)
		}
	}
	var argVals []Value
	fnT, _ := x.info.TypeOf(e.Fun).Underlying().(*types.Signature)
	for i, a := range e.Args {
		var want types.Type
		if fnT != nil {
			want = paramTypeAt(fnT, i)
		}
		v := x.exprT(a, st, want)
		if want != nil {
			v = x.convertTo(st, v, x.info.TypeOf(a), want)
		}
		argVals = append(argVals, v)
	}
	// function literals passed as callbacks: their bodies are checked once for
	// arbitrary arguments (restricted by `lit N requires`), and whatever they
	// assign is unknown after the call
	var lits []*ast.FuncLit
	for _, a := range e.Args {
		if lit, ok := unparen(a).(*ast.FuncLit); ok {
			lits = append(lits, lit)
		}
	}
	for _, lit := range lits {
		x.checkCallbackLit(lit, st)
	}
	res := x.callWith(e, st, recvVal, argVals)
	x.bumpFrontier(st)
	x.recordCall(e, st, argVals, res)
	x.havocEscaped(st)
	async := false
	if fn := x.calleeOf(e); fn != nil {
		if c := x.eng.contractFor(fn); c != nil && c.Opts["async"] == "true" {
			// the callee only schedules the callback (time.AfterFunc): it does
			// not run before the call returns
			async = true
		}
	}
	for _, lit := range lits {
		if async {
			continue
		}
		m := x.modifiedIn(lit.Body)
		x.havoc(st, m)
		x.assumeLitInvariants(lit, st, res)
	}
	return res
}

func paramTypeAt(sig *types.Signature, i int) types.Type {
	n := sig.Params().Len()
	if sig.Variadic() && i >= n-1 {
		if s, ok := sig.Params().At(n - 1).Type().(*types.Slice); ok {
			return s.Elem()
		}
	}
	if i < n {
		return sig.Params().At(i).Type()
	}
	return nil
}

func unparen(e ast.Expr) ast.Expr {
	for {
		p, ok := e.(*ast.ParenExpr)
		if !ok {
			return e
		}
		e = p.X
	}
}

// recvValue evaluates the receiver, following embedded-field promotions and
// taking the address implicitly when the method has a pointer receiver.
func (x *Exec) recvValue(sel *ast.SelectorExpr, s *types.Selection, st *State) Value {
	idx := s.Index()
	if len(idx) == 1 {
		// pointer-receiver method on a local struct that lives in the heap:
		// the receiver is the address of its cell
		if id, ok := unparen(sel.X).(*ast.Ident); ok {
			if o, ok := x.info.ObjectOf(id).(*types.Var); ok {
				if bx, isBx := st.vars[o].(Bx); isBx {
					if fn, ok := s.Obj().(*types.Func); ok {
						if sig, ok := fn.Type().(*types.Signature); ok && sig.Recv() != nil {
							if _, isPtr := sig.Recv().Type().Underlying().(*types.Pointer); isPtr {
								return Sc{bx.P}
							}
						}
					}
				}
			}
		}
	}
	base := x.expr(sel.X, st)
	if len(idx) > 1 {
		// promoted through embedded fields
		baseT := x.info.TypeOf(sel.X)
		cur := base
		curT := baseT
		for _, i := range idx[:len(idx)-1] {
			var stT *types.Struct
			if p, ok := curT.Underlying().(*types.Pointer); ok {
				stT, _ = p.Elem().Underlying().(*types.Struct)
				if stT == nil {
					return Opq{"promoted receiver"}
				}
				f := stT.Field(i)
				pt := x.scalarOf(cur, curT)
				cur = x.heapLoad(st, f.Type(), pt, typeKey(p.Elem())+"."+f.Name())
				curT = f.Type()
				continue
			}
			stT, _ = curT.Underlying().(*types.Struct)
			sv, ok := cur.(St)
			if stT == nil || !ok {
				return Opq{"promoted receiver"}
			}
			cur = sv.Fields[i]
			curT = stT.Field(i).Type()
		}
		return cur
	}
	return base
}

func isByteSlice(t types.Type) bool {
	sl, ok := t.Underlying().(*types.Slice)
	if !ok {
		return false
	}
	b, ok := sl.Elem().Underlying().(*types.Basic)
	return ok && (b.Kind() == types.Byte || b.Kind() == types.Uint8)
}

func (x *Exec) conversion(e *ast.CallExpr, st *State, to types.Type) Value {
	if len(e.Args) != 1 {
		return x.opaque(st, e, "conversion arity")
	}
	from := x.info.TypeOf(e.Args[0])
	v := x.exprT(e.Args[0], st, to)
	if _, ok := intInfoOf(to); ok {
		if _, ok2 := intInfoOf(from); ok2 {
			return x.convertTo(st, v, from, to)
		}
	}
	// string <-> []byte: copy (snapshot)
	_, toSlice := to.Underlying().(*types.Slice)
	_, fromSlice := from.Underlying().(*types.Slice)
	if sl, ok := v.(Sl); ok {
		switch {
		case isStringType(to) && fromSlice:
			return Sl{Comp: append([]*Term(nil), x.slComp(st, sl)...), Off: sl.Off, Len: sl.Len, Nil: False, Str: true}
		case toSlice && isStringType(from) && !isByteSlice(to):
			// []rune(s): the decoded code points are not modelled -- a fresh
			// slice of at most len(s) unknown runes
			x.abstr["[]rune conversion of "+x.src(e.Args[0])+": code points unknown"] = true
			rs, _ := x.fresh(st, to, "runes").(Sl)
			st.add(x.ar.le(rs.Len, sl.Len, idxII))
			st.add(Not(rs.Nil))
			return rs
		case toSlice && isStringType(from):
			reg := x.newRegion("conv")
			st.regs[reg] = append([]*Term(nil), x.slComp(st, sl)...)
			return Sl{Reg: reg, Off: sl.Off, Len: sl.Len, Nil: False}
		case isStringType(to) && isStringType(from), toSlice && fromSlice:
			return v
		}
	}
	if types.Identical(from.Underlying(), to.Underlying()) {
		return v
	}
	if _, ok := v.(Sc); ok {
		if s1, ok1 := x.scalarSort(from); ok1 {
			if s2, ok2 := x.scalarSort(to); ok2 && s1.Eq(s2) {
				return v
			}
		}
	}
	return x.opaque(st, e, "conversion "+from.String()+" -> "+to.String())
}

func (x *Exec) builtin(e *ast.CallExpr, st *State, name string) Value {
	switch name {
	case "len", "cap":
		v := x.expr(e.Args[0], st)
		switch v := v.(type) {
		case Sl:
			if name == "cap" && v.Cap != nil {
				return Sc{v.Cap}
			}
			if name == "cap" {
				// cap >= len; unknown otherwise
				c := x.freshTerm("cap", x.ar.idxSort())
				st.add(x.ar.le(v.Len, c, idxII))
				st.add(x.ar.le(c, x.ar.idxC(1<<62), idxII))
				return Sc{c}
			}
			return Sc{v.Len}
		case Ar:
			return Sc{x.ar.idxC(v.N)}
		}
		t := x.info.TypeOf(e.Args[0])
		if p, ok := t.Underlying().(*types.Pointer); ok {
			if a, ok := p.Elem().Underlying().(*types.Array); ok {
				return Sc{x.ar.idxC(a.Len())}
			}
		}
		r := x.freshTerm("len", x.ar.idxSort())
		st.add(x.ar.le(x.ar.idxC(0), r, idxII))
		x.abstr["len of "+t.String()] = true
		return Sc{r}
	case "min", "max":
		t := x.info.TypeOf(e)
		ii, ok := intInfoOf(t)
		if !ok {
			return x.opaque(st, e, name+" on non-integers")
		}
		r := x.scalarOf(x.exprT(e.Args[0], st, t), t)
		for _, a := range e.Args[1:] {
			b := x.scalarOf(x.exprT(a, st, t), t)
			if name == "min" {
				r = Ite(x.ar.le(r, b, ii), r, b)
			} else {
				r = Ite(x.ar.le(r, b, ii), b, r)
			}
		}
		return Sc{r}
	case "make":
		t := x.info.TypeOf(e)
		if u, ok := t.Underlying().(*types.Slice); ok {
			lt := x.info.TypeOf(e.Args[1])
			n := x.toIdx(x.exprT(e.Args[1], st, types.Typ[types.Int]), lt)
			g := x.ar.le(x.ar.idxC(0), n, idxII)
			if !g.IsTrue() {
				x.oblige(st, "makelen", x.site("makelen", e), "", g, e.Pos())
				st.add(g)
			}
			if len(e.Args) > 2 {
				// make([]T, len, cap): the capacity is what is allocated
				ct := x.info.TypeOf(e.Args[2])
				cn := x.toIdx(x.exprT(e.Args[2], st, types.Typ[types.Int]), ct)
				// make panics unless 0 <= len <= cap
				if gc := x.ar.le(n, cn, idxII); !gc.IsTrue() {
					x.oblige(st, "makelen", x.site("makelen", e)+".cap", "", gc, e.Pos())
				}
				x.allocCheck(st, cn, e)
			} else {
				x.allocCheck(st, n, e)
			}
			l := x.layout(u.Elem())
			comps := make([]*Term, len(l))
			for i, c := range l {
				comps[i] = ConstArr(ArrSort(x.ar.idxSort(), c.S), x.zeroOfSort(c.S, c.Suffix))
			}
			reg := x.newRegion("make")
			st.regs[reg] = comps
			return Sl{Reg: reg, Off: x.ar.idxC(0), Len: n, Nil: False}
		}
		for _, a := range e.Args[1:] {
			x.expr(a, st)
		}
		if _, ok := t.Underlying().(*types.Map); ok {
			return Sc{x.newMap(st, "makemap")}
		}
		x.abstr["make "+t.String()] = true
		p := x.alloc(st, "make")
		return Sc{p}
	case "new":
		t := x.info.TypeOf(e)
		p := x.alloc(st, "new")
		if pt, ok := t.Underlying().(*types.Pointer); ok {
			x.heapStoreStruct(st, pt.Elem(), p, x.zero(pt.Elem()))
			if types.TypeString(pt.Elem(), nil) == "bytes.Buffer" {
				// a new bytes.Buffer has been written nothing: its stream
				// ghosts (#wlen ...) start at zero
				x.zeroGhosts(st, p)
			}
		}
		return Sc{p}
	case "append":
		return x.appendCall(e, st)
	case "copy":
		return x.copyCall(e, st)
	case "panic":
		for _, a := range e.Args {
			x.expr(a, st)
		}
		x.oblige(st, "panic", x.site("panic", e), "", False, e.Pos())
		st.add(False)
		return Tu{}
	case "delete", "clear", "print", "println":
		if name == "delete" && len(e.Args) == 2 {
			if mt, ok := x.info.TypeOf(e.Args[0]).Underlying().(*types.Map); ok {
				mv := x.expr(e.Args[0], st)
				kv := x.exprT(e.Args[1], st, mt.Key())
				if msc, ok := mv.(Sc); ok {
					if k, ok := x.keyID(st, mt.Key(), kv); ok {
						x.mapDelete(st, msc.T, k)
						return Tu{}
					}
				}
			}
		}
		for _, a := range e.Args {
			x.expr(a, st)
		}
		x.abstr["builtin "+name] = true
		return Tu{}
	}
	return x.opaque(st, e, "builtin "+name)
}

// allocCheck: alloc obligation when the unit declares an allocation cap.
func (x *Exec) allocCheck(st *State, n *Term, at ast.Node) {
	if x.c == nil {
		return
	}
	capSrc, ok := x.c.Opts["alloc_cap"]
	if !ok {
		return
	}
	cl, err := x.eng.cs.mkClause(capSrc, x.c.File, x.c.Line)
	if err != nil {
		x.fail(at.Pos(), "bad alloc_cap: %v", err)
		return
	}
	capT := x.cint(cl.Expr, x.cctx(st, cl))
	nm := n
	if x.ar.BV {
		nm = x.ar.toMath(n, idxII)
	}
	var g *Term
	if x.ar.BV {
		g = BVCmp("bvsle", nm, capT)
	} else {
		g = ILe(nm, capT)
	}
	x.oblige(st, "alloc", x.site("alloc", at), "", g, at.Pos())
}

func (x *Exec) appendCall(e *ast.CallExpr, st *State) Value {
	t := x.info.TypeOf(e)
	u, ok := t.Underlying().(*types.Slice)
	if !ok {
		return x.opaque(st, e, "append to non-slice")
	}
	bv := x.expr(e.Args[0], st)
	base, ok := bv.(Sl)
	if !ok {
		return x.fresh(st, t, "append")
	}
	comps := append([]*Term(nil), x.slComp(st, base)...)
	// functional model: result is a new backing array holding base's elements
	// followed by the appended ones (aliasing with base's spare capacity is not modelled)
	n := base.Len
	if e.Ellipsis.IsValid() {
		sv := x.expr(e.Args[1], st)
		src, ok := sv.(Sl)
		if !ok {
			return x.fresh(st, t, "append")
		}
		sc := x.slComp(st, src)
		if src.Len.IsConst() && src.Len.Val.Int64() <= 64 {
			for i := int64(0); i < src.Len.Val.Int64(); i++ {
				for k := range comps {
					comps[k] = Store(comps[k], x.idxAdd(x.idxAdd(base.Off, n), x.ar.idxC(i)), Select(sc[k], x.idxAdd(src.Off, x.ar.idxC(i))))
				}
			}
			n = x.idxAdd(n, src.Len)
		} else if x.ar.BV {
			// bv theory avoids quantifiers: copy up to 16 elements under guards;
			// the bound is an obligation
			bound := x.ar.le(src.Len, x.ar.idxC(16), idxII)
			x.oblige(st, "append", x.site("appendbound", e), "", bound, e.Pos())
			st.add(bound)
			for i := int64(0); i < 16; i++ {
				in := x.ar.lt(x.ar.idxC(i), src.Len, idxII)
				pos := x.idxAdd(x.idxAdd(base.Off, n), x.ar.idxC(i))
				for k := range comps {
					comps[k] = Store(comps[k], pos, Ite(in, Select(sc[k], x.idxAdd(src.Off, x.ar.idxC(i))), Select(comps[k], pos)))
				}
			}
			n = x.idxAdd(n, src.Len)
		} else {
			// fresh arrays constrained pointwise
			nc := make([]*Term, len(comps))
			for k := range comps {
				nc[k] = x.freshTerm("app", comps[k].S)
				j := Var(fmt.Sprintf("k!%d", x.nextEpoch()), x.ar.idxSort())
				zero := x.ar.idxC(0)
				st.add(Forall([]*Term{j}, Implies(And(x.ar.le(zero, j, idxII), x.ar.lt(j, base.Len, idxII)),
					Eq(Select(nc[k], x.idxAdd(base.Off, j)), Select(comps[k], x.idxAdd(base.Off, j)))),
					[]*Term{Select(nc[k], x.idxAdd(base.Off, j))}))
				j2 := Var(fmt.Sprintf("k!%d", x.nextEpoch()), x.ar.idxSort())
				st.add(Forall([]*Term{j2}, Implies(And(x.ar.le(zero, j2, idxII), x.ar.lt(j2, src.Len, idxII)),
					Eq(Select(nc[k], x.idxAdd(x.idxAdd(base.Off, base.Len), j2)), Select(sc[k], x.idxAdd(src.Off, j2)))),
					[]*Term{Select(sc[k], x.idxAdd(src.Off, j2))}))
			}
			comps = nc
			n = x.idxAdd(n, src.Len)
		}
	} else {
		for _, a := range e.Args[1:] {
			v := x.convertTo(st, x.exprT(a, st, u.Elem()), x.info.TypeOf(a), u.Elem())
			ts := x.flatten(st, u.Elem(), v)
			for k := range comps {
				comps[k] = Store(comps[k], x.idxAdd(base.Off, n), ts[k])
			}
			n = x.idxAdd(n, x.ar.idxC(1))
		}
	}
	reg := x.newRegion("append")
	st.regs[reg] = comps
	return Sl{Reg: reg, Off: base.Off, Len: n, Nil: False}
}

func (x *Exec) copyCall(e *ast.CallExpr, st *State) Value {
	dv := x.expr(e.Args[0], st)
	sv := x.expr(e.Args[1], st)
	dst, ok1 := dv.(Sl)
	src, ok2 := sv.(Sl)
	if !ok1 || !ok2 {
		return x.opaque(st, e, "copy of unmodelled slices")
	}
	n := Ite(x.ar.le(dst.Len, src.Len, idxII), dst.Len, src.Len)
	if dst.Reg == nil {
		if x.coarse {
			x.abstr["copy into an untracked slice (content not modelled)"] = true
		} else {
			x.fail(e.Pos(), "copy into untracked slice")
		}
		return Sc{n}
	}
	old := st.regs[dst.Reg]
	sc := x.slComp(st, src)
	nt := make([]*Term, len(old))
	for k := range old {
		nt[k] = x.freshTerm("cp", old[k].S)
		j := Var(fmt.Sprintf("k!%d", x.nextEpoch()), x.ar.idxSort())
		inRange := And(x.ar.le(dst.Off, j, idxII), x.ar.lt(j, x.idxAdd(dst.Off, n), idxII))
		st.add(Forall([]*Term{j}, Eq(Select(nt[k], j),
			Ite(inRange, Select(sc[k], x.idxAdd(src.Off, x.idxSub(j, dst.Off))), Select(old[k], j))),
			[]*Term{Select(nt[k], j)}))
	}
	st.regs[dst.Reg] = nt
	return Sc{n}
}

// ---- calls to functions

func (x *Exec) callWith(e *ast.CallExpr, st *State, recvVal Value, args []Value) Value {
	fn := x.calleeOf(e)
	resT := x.info.TypeOf(e)
	if fn == nil {
		// call through a function-typed struct field: a contract may be given
		// for the field (`//gvc:func field:T.f`), an assumption about whatever
		// function is stored there
		if sel, ok := unparen(e.Fun).(*ast.SelectorExpr); ok {
			if s := x.info.Selections[sel]; s != nil && s.Kind() == types.FieldVal {
				if fv, ok := s.Obj().(*types.Var); ok {
					if sig, ok := fv.Type().Underlying().(*types.Signature); ok {
						rt := s.Recv()
						if p, ok := rt.Underlying().(*types.Pointer); ok {
							rt = p.Elem()
						}
						key := "field:" + typeKey(rt) + "." + fv.Name()
						if c := x.eng.cs.Funcs[key]; c != nil {
							synth := types.NewFunc(token.NoPos, fv.Pkg(), fv.Name(), sig)
							x.assumes["function stored in field "+trimPkg(typeKey(rt))+"."+fv.Name()+" satisfies its field contract"] = true
							if ht := x.info.TypeOf(sel.X); ht != nil {
								x.fieldHolder = &cbind{x.expr(sel.X, st), ht}
							}
							return x.applyContract(e, st, synth, c, nil, args, resT)
						}
					}
				}
			}
		}
		// a local variable holding a function literal of this unit: its body
		// is executed in place (captured variables are the unit's own)
		if id, ok := unparen(e.Fun).(*ast.Ident); ok {
			if v, ok := x.info.ObjectOf(id).(*types.Var); ok {
				if fv, ok := st.vars[v].(Fv); ok {
					if flit, ok := fv.Lit.(*ast.FuncLit); ok && flit != nil {
						if res, ok := x.inlineClosure(e, st, flit, args); ok {
							return res
						}
					}
				}
			}
		}
		return x.abstractCall(e, st, "call through function value "+x.src(e.Fun), resT, args, recvVal)
	}
	key := funcKey(fn)
	if fn.FullName() == "(*regexp.Regexp).MatchString" {
		if v, ok := x.regexMatch(e, st, args); ok {
			return v
		}
	}
	// hard-wired library semantics
	switch key {
	case "fmt.Errorf":
		var wrapped *Term
		if len(e.Args) > 0 {
			if tv, ok := x.info.Types[e.Args[0]]; ok && tv.Value != nil {
				format := tv.Value.ExactString()
				if strings.Contains(format, "%w") {
					// first %w operand: find the first error-typed argument
					for i, a := range e.Args[1:] {
						if errorLike(x.info.TypeOf(a)) {
							wrapped = x.scalarOf(args[i+1], x.info.TypeOf(a))
							break
						}
					}
				}
			}
		}
		return Sc{x.newError(st, wrapped)}
	case "(*sync.Mutex).Lock", "(*sync.Mutex).Unlock", "(*sync.RWMutex).Lock", "(*sync.RWMutex).Unlock":
		if x.monitorCall(e, st, strings.HasSuffix(key, ".Lock")) {
			return Tu{}
		}
	case "errors.New":
		return Sc{x.newError(st, nil)}
	case "errors.Join":
		if e.Ellipsis.IsValid() && len(args) == 1 {
			// errors.Join(errs...): nil exactly when every element is nil
			if sl, ok := args[0].(Sl); ok {
				if comps := x.slComp(st, sl); len(comps) == 1 && comps[0].S.Kind == SArr && comps[0].S.Elem.Eq(IntSort) {
					r := x.newError(st, nil)
					k := Var(fmt.Sprintf("k!%d", x.nextEpoch()), x.ar.idxSort())
					in := And(x.ar.le(x.ar.idxC(0), k, idxII), x.ar.lt(k, sl.Len, idxII))
					el := Select(comps[0], x.idxAdd(sl.Off, k))
					allNil := Forall([]*Term{k}, Implies(in, Eq(el, IntC(0))), []*Term{el})
					return Sc{Ite(allNil, IntC(0), r)}
				}
			}
		}
		// non-nil when some operand is non-nil; errors.Is sees every operand,
		// the model keeps the first one
		var first *Term
		var anyNonNil []*Term
		for i := range args {
			t := x.scalarOf(args[i], nil)
			if first == nil {
				first = t
			}
			anyNonNil = append(anyNonNil, Neq(t, IntC(0)))
		}
		e2 := x.newError(st, first)
		return Sc{Ite(Or(anyNonNil...), e2, IntC(0))}
	case "errors.Is":
		a := x.scalarOf(args[0], nil)
		b := x.scalarOf(args[1], nil)
		return Sc{And(Neq(a, IntC(0)), Or(Eq(a, b), Eq(errRoot(a), errRoot(b))))}
	}
	if x.isPureBuiltinFunc(fn) {
		x.abstr["dropped: "+key] = true
		return x.freshResult(st, resT)
	}
	c := x.eng.contractFor(fn)
	if c != nil && !c.Trusted && x.c != nil && x.c.Opts["callees"] == "abstract" && len(c.Props) > 0 {
		// a unit that only states call-site rules about a few calls: the
		// repository's own functions under contract are left abstract here
		// (their preconditions are not this unit's business, their
		// postconditions are not used); library contracts still apply
		x.abstr["callee "+key+" left abstract (opt callees abstract)"] = true
		return x.abstractCall(e, st, key, resT, args, recvVal)
	}
	if c == nil {
		if v, ok := x.tryInline(e, st, fn, recvVal, args); ok {
			return v
		}
		return x.abstractCall(e, st, key, resT, args, recvVal)
	}
	return x.applyContract(e, st, fn, c, recvVal, args, resT)
}

func (x *Exec) freshResult(st *State, resT types.Type) Value {
	if resT == nil {
		return Tu{}
	}
	if tu, ok := resT.(*types.Tuple); ok {
		out := Tu{}
		for i := 0; i < tu.Len(); i++ {
			out.Vs = append(out.Vs, x.fresh(st, tu.At(i).Type(), "res"))
		}
		if tu.Len() == 0 {
			return Tu{}
		}
		return out
	}
	return x.fresh(st, resT, "res")
}

// abstractCall: callee without a contract. Results are unknown; the heap is
// havocked; slices passed as arguments may have been written.
func (x *Exec) abstractCall(e *ast.CallExpr, st *State, what string, resT types.Type, args []Value, recvVal Value) Value {
	x.abstr["callee without contract: "+what] = true
	x.checkSinks(e, st, what, args, recvVal)
	if !x.coarse {
		x.fail(e.Pos(), "call to %s: no contract (strict unit)", what)
	}
	if x.c != nil && x.c.Opts["frame"] == "args" {
		// DESIGN 2.5: an abstracted callee is assumed to modify only the
		// objects passed to it (receiver and pointer arguments, one level)
		x.assumes["abstracted callees modify only the objects passed to them (receiver, pointer arguments, slices), one level deep"] = true
		if recvVal != nil {
			if sel, ok := unparen(e.Fun).(*ast.SelectorExpr); ok {
				if s := x.info.Selections[sel]; s != nil {
					x.havocObject(st, s.Recv(), recvVal)
				}
			}
		}
		for i, a := range args {
			if i < len(e.Args) {
				x.havocObject(st, x.info.TypeOf(e.Args[i]), a)
			}
		}
	} else {
		x.havocHeapAll(st)
	}
	for _, a := range args {
		if sl, ok := a.(Sl); ok && sl.Reg != nil && !sl.Str {
			old := st.regs[sl.Reg]
			nt := make([]*Term, len(old))
			for i, o := range old {
				nt[i] = x.freshTerm(sl.Reg.Name, o.S)
			}
			st.regs[sl.Reg] = nt
		}
	}
	return x.freshResult(st, resT)
}

// bindNames returns parameter (incl. receiver) and result names for a callee.
func (x *Exec) calleeNames(c *Contract, fn *types.Func) (recv string, params []string, results []string) {
	sig := fn.Type().(*types.Signature)
	if sig.Recv() != nil {
		recv = sig.Recv().Name()
		if recv == "" || recv == "_" {
			recv = "recv"
		}
	}
	for i := 0; i < sig.Params().Len(); i++ {
		n := sig.Params().At(i).Name()
		if n == "" || n == "_" || strings.HasPrefix(n, "#") {
			n = fmt.Sprintf("arg%d", i)
		}
		params = append(params, n)
	}
	for i := 0; i < sig.Results().Len(); i++ {
		n := sig.Results().At(i).Name()
		if n == "" || n == "_" || strings.HasPrefix(n, "#") {
			if sig.Results().Len() == 1 {
				n = "result"
			} else {
				n = fmt.Sprintf("result%d", i)
			}
		}
		results = append(results, n)
	}
	if c != nil && len(c.Params) > 0 {
		ps := c.Params
		if sig.Recv() != nil && len(ps) == len(params)+1 {
			recv = ps[0]
			ps = ps[1:]
		}
		if len(ps) == len(params) {
			params = ps
		}
	}
	if c != nil && len(c.Results) == len(results) {
		results = c.Results
	}
	return
}

func (x *Exec) argForParam(c *Contract, fn *types.Func, call *ast.CallExpr, pname string) ast.Expr {
	recv, params, _ := x.calleeNames(c, fn)
	if pname == recv {
		if sel, ok := unparen(call.Fun).(*ast.SelectorExpr); ok {
			return sel.X
		}
		return nil
	}
	for i, p := range params {
		if p == pname && i < len(call.Args) {
			return call.Args[i]
		}
	}
	return nil
}

func (x *Exec) paramType(c *Contract, fn *types.Func, pname string) types.Type {
	recv, params, _ := x.calleeNames(c, fn)
	sig := fn.Type().(*types.Signature)
	if pname == recv && sig.Recv() != nil {
		return sig.Recv().Type()
	}
	for i, p := range params {
		if p == pname {
			return sig.Params().At(i).Type()
		}
	}
	return nil
}

// applyContract: requires -> obligations; modifies -> havoc; ensures -> assume.
func (x *Exec) applyContract(e *ast.CallExpr, st *State, fn *types.Func, c *Contract, recvVal Value, args []Value, resT types.Type) Value {
	sig := fn.Type().(*types.Signature)
	recvN, paramN, resN := x.calleeNames(c, fn)
	env := map[string]cbind{}
	if x.fieldHolder != nil {
		// call through a function-typed field: `holder` is the struct holding it
		env["holder"] = *x.fieldHolder
		x.fieldHolder = nil
	}
	valueRecv := false
	if sig.Recv() != nil {
		rv := recvVal
		if rv == nil {
			rv = x.fresh(st, sig.Recv().Type(), "recv")
		}
		if sc, isSc := rv.(Sc); isSc && recvVal != nil {
			if _, isPtr := sig.Recv().Type().Underlying().(*types.Pointer); isPtr && c.Opts["nilrecv"] != "true" {
				// the callee's contract assumes a non-nil receiver: the caller owes it
				x.nilCheck(st, sc.T, e)
			}
		}
		if sc, isSc := rv.(Sc); isSc {
			if _, isStruct := sig.Recv().Type().Underlying().(*types.Struct); isStruct {
				// value-receiver method called through a pointer: (*p).M()
				x.nilCheck(st, sc.T, e)
				rv = x.heapLoad(st, sig.Recv().Type(), sc.T, "")
			}
		}
		env[recvN] = cbind{rv, sig.Recv().Type()}
		if _, isSt := rv.(St); isSt {
			if pt, isPtr := sig.Recv().Type().Underlying().(*types.Pointer); isPtr {
				// pointer-receiver method on an addressable struct value: the
				// contract sees the struct by value; changes are written back
				env[recvN] = cbind{rv, pt.Elem()}
				valueRecv = true
				// a method promoted from an embedded struct field of an object
				// (p.M() for p.F.M()): the receiver's ghosts live at the
				// address of that field
				if sel, ok := unparen(e.Fun).(*ast.SelectorExpr); ok {
					if s := x.info.Selections[sel]; s != nil && len(s.Index()) == 2 {
						if id, isID := unparen(sel.X).(*ast.Ident); isID {
							if ov, ok := x.expr(id, st).(Sc); ok && ov.T.S.Eq(IntSort) {
								if ot := x.info.TypeOf(id); ot != nil {
									if opt, ok := ot.Underlying().(*types.Pointer); ok {
										if ost, ok := opt.Elem().Underlying().(*types.Struct); ok && s.Index()[0] < ost.NumFields() {
											fname := ost.Field(s.Index()[0]).Name()
											env["#addr:"+recvN] = cbind{Sc{App(fieldAddrFn, ov.T, funcID("field:"+fname))}, nil}
										}
									}
								}
							}
						}
					}
				}
			}
		}
	}
	for i, n := range paramN {
		pt := sig.Params().At(i).Type()
		if sig.Variadic() && i == len(paramN)-1 {
			// pack the variadic tail unless passed with ...
			if e.Ellipsis.IsValid() && i < len(args) {
				env[n] = cbind{args[i], pt}
			} else {
				env[n] = cbind{x.packVariadic(st, pt, args[min(i, len(args)):]), pt}
			}
			continue
		}
		if i < len(args) {
			env[n] = cbind{args[i], pt}
		}
	}
	pre := st.clone()
	x.factSink = st
	ctx := &cctx{x: x, st: st, old: pre, env: env, callee: c}
	for _, l := range c.Lets {
		r := ctx.with(l.C).eval(l.C.Expr)
		env[l.Name] = cbind{x.nameLet(st, l.Name, r.v), r.t}
	}
	callName := x.site("pre@"+c.Short, e)
	for _, r := range c.Requires {
		g := x.cbool(r.Expr, ctx.with(r))
		x.oblige(st, "pre", callName+"."+r.Label, r.Label, g, e.Pos())
		st.add(g)
	}
	x.checkSinks(e, st, c.Short, args, recvVal)
	x.factSink = st
	// frame
	oldEnv := map[string]cbind{}
	for k, v := range env {
		oldEnv[k] = v
	}
	x.applyModifiesSel(st, c, fn, env, args, resN, false)
	// results
	var resVals []Value
	for i := range resN {
		rt := sig.Results().At(i).Type()
		if _, isPtr := rt.Underlying().(*types.Pointer); isPtr && i == 0 && c.Opts["fresh_result"] == "true" {
			// the callee returns a newly allocated object
			p := x.alloc(st, resN[i])
			x.zeroGhosts(st, p)
			resVals = append(resVals, Sc{p})
			continue
		}
		resVals = append(resVals, x.fresh(st, rt, resN[i]))
	}
	for i, n := range resN {
		env[n] = cbind{resVals[i], sig.Results().At(i).Type()}
	}
	x.applyModifiesSel(st, c, fn, env, args, resN, true)
	post := &cctx{x: x, st: st, old: pre, env: env, oldEnv: oldEnv, callee: c, resNames: resN}
	for _, en := range c.Ensures {
		if strings.Contains(en.Src, "now(") || strings.Contains(en.Src, "calls(") || strings.Contains(en.Src, "lastres(") || strings.Contains(en.Src, "lastarg(") || strings.HasPrefix(en.Label, "_") {
			// speaks about the callee's locals, its own call records or (label
			// starting with '_') its package's private tables: proved inside
			// the callee, not exported to callers
			continue
		}
		x.assumeEnsures(post.with(en), en, env, resN)
	}
	for _, g := range c.Grants {
		x.assumes["granted by "+trimPkg(c.Short)+": "+g.Src] = true
		x.assumeEnsures(post.with(g), g, env, resN)
	}
	if valueRecv {
		if sel, ok := unparen(e.Fun).(*ast.SelectorExpr); ok {
			promoted := false
			if s := x.info.Selections[sel]; s != nil && len(s.Index()) > 1 {
				promoted = true
			}
			switch {
			case !promoted:
				x.store(sel.X, env[recvN].v, st)
			case len(c.Modifies) == 0:
				// method promoted from an embedded struct: the receiver is a
				// field of sel.X; a contract without modifies leaves it as it is
			default:
				x.fail(e.Pos(), "unsupported: promoted pointer-receiver method %s with a modifies clause on an embedded value receiver", c.Short)
			}
		}
	}
	x.usedContracts[c.Key] = c
	switch len(resN) {
	case 0:
		return Tu{}
	case 1:
		return env[resN[0]].v
	}
	out := Tu{}
	for _, n := range resN {
		out.Vs = append(out.Vs, env[n].v)
	}
	return out
}

func (x *Exec) packVariadic(st *State, sliceT types.Type, vals []Value) Value {
	u, ok := sliceT.Underlying().(*types.Slice)
	if !ok {
		return x.fresh(st, sliceT, "variadic")
	}
	l := x.layout(u.Elem())
	comps := make([]*Term, len(l))
	for i, c := range l {
		comps[i] = ConstArr(ArrSort(x.ar.idxSort(), c.S), x.zeroOfSort(c.S, c.Suffix))
	}
	for i, v := range vals {
		ts := x.flatten(st, u.Elem(), v)
		for k := range comps {
			comps[k] = Store(comps[k], x.ar.idxC(int64(i)), ts[k])
		}
	}
	return Sl{Comp: comps, Off: x.ar.idxC(0), Len: x.ar.idxC(int64(len(vals))), Nil: BoolC(len(vals) == 0)}
}

// fieldAddrFn: the address of an embedded struct field of an object.
var fieldAddrFn = &FuncDecl{Name: "fieldaddr", Params: []*Sort{IntSort, IntSort}, Ret: IntSort}

// applyModifies havocs what the callee's frame allows it to change.
// modOnResult: the modifies entry speaks about a result of the callee (e.g.
// result.#g): it is applied once the results exist.
func modOnResult(mod string, resN []string) bool {
	for _, r := range resN {
		if strings.HasPrefix(mod, r+".") || strings.HasPrefix(mod, r+"@") {
			return true
		}
	}
	return false
}

func (x *Exec) applyModifies(st *State, c *Contract, fn *types.Func, env map[string]cbind, args []Value) {
	x.applyModifiesSel(st, c, fn, env, args, nil, false)
}

func (x *Exec) applyModifiesSel(st *State, c *Contract, fn *types.Func, env map[string]cbind, args []Value, resN []string, onResults bool) {
	for _, mod := range c.Modifies {
		mod = strings.TrimSpace(mod)
		if modOnResult(mod, resN) != onResults {
			continue
		}
		switch {
		case mod == "":
		case mod == "*":
			x.havocHeapAll(st)
		case strings.HasPrefix(mod, "map:"):
			x.noteWrite(mod, nil)
			x.havocHeapKey(st, mod)
		case strings.HasPrefix(mod, "*"):
			// *p : the cell a pointer parameter points to
			b, ok := env[mod[1:]]
			if !ok || b.t == nil {
				x.fail(token.NoPos, "contract %s: bad modifies %q", c.Key, mod)
				continue
			}
			pt, ok := b.t.Underlying().(*types.Pointer)
			if !ok {
				x.fail(token.NoPos, "contract %s: modifies %q: not a pointer", c.Key, mod)
				continue
			}
			x.havocHeapAt(st, typeKey(pt.Elem()), pt.Elem(), x.scalarOf(b.v, b.t))
		case strings.Contains(mod, "@"):
			// p@T.f : field f of the *T that p (an interface or pointer) refers to
			i := strings.Index(mod, "@")
			pname, tf := mod[:i], mod[i+1:]
			b, ok := env[pname]
			key, ft := x.typedFieldKey(c.Pkg, tf)
			if ft == nil {
				x.fail(token.NoPos, "contract %s: bad modifies %q", c.Key, mod)
				continue
			}
			if !ok {
				// not a plain parameter (e.g. elements of a slice of pointers):
				// the field may change on every object
				x.noteWrite(key, nil)
				x.havocHeapKey(st, key)
				continue
			}
			x.havocHeapAt(st, key, ft, x.scalarOf(b.v, nil))
		case strings.HasSuffix(mod, "[*]"):
			pname := strings.TrimSuffix(mod, "[*]")
			b, ok := env[pname]
			if !ok {
				x.fail(token.NoPos, "contract %s: modifies unknown parameter %s", c.Key, pname)
				continue
			}
			sl, ok := b.v.(Sl)
			if !ok {
				continue
			}
			if sl.Reg == nil {
				x.abstr["callee "+c.Short+" writes an untracked slice"] = true
				continue
			}
			// only the window [off, off+len) may change
			old := st.regs[sl.Reg]
			nt := make([]*Term, len(old))
			for k := range old {
				nt[k] = x.freshTerm(sl.Reg.Name, old[k].S)
				j := Var(fmt.Sprintf("k!%d", x.nextEpoch()), x.ar.idxSort())
				outside := Or(x.ar.lt(j, sl.Off, idxII), x.ar.le(x.idxAdd(sl.Off, sl.Len), j, idxII))
				st.add(Forall([]*Term{j}, Implies(outside, Eq(Select(nt[k], j), Select(old[k], j))), []*Term{Select(nt[k], j)}))
			}
			st.regs[sl.Reg] = nt
		default:
			i := strings.Index(mod, ".")
			if i < 0 {
				x.fail(token.NoPos, "contract %s: bad modifies %q", c.Key, mod)
				continue
			}
			if j := strings.LastIndex(mod, ".#"); j > i {
				// <path>.#g : ghost g of the object the path expression denotes
				pe, err := parseContractExpr(mod[:j])
				if err != nil {
					x.fail(token.NoPos, "contract %s: bad modifies %q", c.Key, mod)
					continue
				}
				cx := &cctx{x: x, st: st, old: st, env: env, callee: c}
				r := cx.eval(pe)
				x.havocGhostAt(st, mod[j+2:], cbind{r.v, r.t})
				continue
			}
			pname, f := mod[:i], mod[i+1:]
			if strings.HasPrefix(f, "#") || strings.HasPrefix(f, "G_") {
				g := strings.TrimPrefix(strings.TrimPrefix(f, "#"), "G_")
				b, ok := env[pname]
				if !ok {
					x.fail(token.NoPos, "contract %s: modifies unknown parameter %s", c.Key, pname)
					continue
				}
				x.havocGhostAt(st, g, b)
				continue
			}
			b, ok := env[pname]
			if !ok {
				x.fail(token.NoPos, "contract %s: modifies unknown parameter %s", c.Key, pname)
				continue
			}
			if sv, isSt := b.v.(St); isSt {
				// by-value struct binding (receiver taken from an addressable
				// struct field): the named field becomes unknown
				if su, ok2 := b.t.Underlying().(*types.Struct); ok2 {
					for fi := 0; fi < su.NumFields(); fi++ {
						if su.Field(fi).Name() == f {
							nf := append([]Value(nil), sv.Fields...)
							nf[fi] = x.fresh(st, su.Field(fi).Type(), f)
							env[pname] = cbind{St{Fields: nf}, b.t}
						}
					}
				}
				continue
			}
			keys, ok := x.heapKeyForField(b.t, f)
			ft := x.fieldType(b.t, f)
			if !ok || ft == nil {
				x.fail(token.NoPos, "contract %s: modifies unknown field %s", c.Key, mod)
				continue
			}
			// only the object pointed to by the argument changes
			p := x.scalarOf(b.v, b.t)
			for _, k := range keys {
				x.havocHeapAt(st, k, ft, p)
			}
		}
	}
}

// havocHeapAt: every component of field key at object p gets an unknown
// value; other objects keep theirs.
func (x *Exec) havocHeapAt(st *State, key string, ft types.Type, p *Term) {
	x.noteWrite(key, p)
	for _, c := range x.layout(ft) {
		k := key + c.Suffix
		arr := x.heapGet(st, k, ArrSort(IntSort, c.S))
		st.heap[k] = Store(arr, p, x.freshTerm("hv", c.S))
	}
}

func (x *Exec) fieldType(pt types.Type, field string) types.Type {
	t := pt
	if p, ok := t.Underlying().(*types.Pointer); ok {
		t = p.Elem()
	}
	s, ok := t.Underlying().(*types.Struct)
	if !ok {
		return nil
	}
	for i := 0; i < s.NumFields(); i++ {
		if s.Field(i).Name() == field {
			return s.Field(i).Type()
		}
	}
	return nil
}

// havocEscaped: locals whose address was handed out as an opaque pointer may
// have been assigned by the call that just returned.
func (x *Exec) havocEscaped(st *State) {
	if len(x.escaped) == 0 {
		return
	}
	var vs []*types.Var
	for v := range x.escaped {
		vs = append(vs, v)
	}
	sort.Slice(vs, func(i, j int) bool { return vs[i].Pos() < vs[j].Pos() })
	for _, v := range vs {
		if _, have := st.vars[v]; !have {
			continue
		}
		if _, isBx := st.vars[v].(Bx); isBx {
			continue
		}
		st.vars[v] = x.fresh(st, v.Type(), v.Name())
	}
}
