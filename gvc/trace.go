package main

// Call records: for every call the unit makes (by the callee's simple name) the
// state remembers how many such calls there were on this path, the scalar
// arguments of the last one and its last (error) result. Contracts read them
// with calls("Name"), lastarg("Name", k) and lastres("Name"): "on a failing
// return the last SetReference was given the saved HEAD".

import (
	"fmt"
	"go/ast"
	"go/token"
)

func calleeSimpleName(e *ast.CallExpr) string {
	switch f := unparen(e.Fun).(type) {
	case *ast.Ident:
		return f.Name
	case *ast.SelectorExpr:
		return f.Sel.Name
	}
	return ""
}

func (x *Exec) recordCall(e *ast.CallExpr, st *State, args []Value, res Value) {
	name := calleeSimpleName(e)
	if name == "" || x.c == nil || !x.c.usesCallRecords {
		return
	}
	n := x.ar.mathC(newBig(0))
	if c, ok := st.ghosts["$calls:"+name].(Sc); ok {
		n = c.T
	}
	one := x.ar.mathC(newBig(1))
	sum, err := x.ar.mathBin(token.ADD, n, one)
	if err != nil {
		return
	}
	st.ghosts["$calls:"+name] = Sc{sum}
	for i, a := range args {
		if sc, ok := a.(Sc); ok && i < 4 {
			st.ghosts[fmt.Sprintf("$arg%d:%s", i, name)] = sc
		}
	}
	var last Value = res
	if tu, ok := res.(Tu); ok && len(tu.Vs) > 0 {
		last = tu.Vs[len(tu.Vs)-1]
	}
	if sc, ok := last.(Sc); ok {
		st.ghosts["$res:"+name] = sc
	}
}
