package main

// Symbolic executor: expressions, assignments, memory access.

import (
	"fmt"
	"go/ast"
	"go/constant"
	"go/token"
	"go/types"
	"math/big"
	"strings"
)

type bigInt = big.Int

func newBig(v int64) *big.Int { return big.NewInt(v) }

func (x *Exec) scalar(v Value) *Term {
	switch v := v.(type) {
	case Sc:
		return v.T
	case Opq:
		return x.freshTerm("opq", IntSort)
	}
	panic(fmt.Sprintf("scalar: got %T", v))
}

// scalarOf returns the term of a scalar-typed value, materialising opaque
// values at the right sort.
func (x *Exec) scalarOf(v Value, t types.Type) *Term {
	if sc, ok := v.(Sc); ok {
		return sc.T
	}
	s := IntSort
	if t != nil {
		if s2, ok := x.scalarSort(t); ok {
			s = s2
		}
	}
	return x.freshTerm("opq", s)
}

// cond evaluates a boolean expression to a term.
func (x *Exec) cond(e ast.Expr, st *State) *Term {
	v := x.expr(e, st)
	if sc, ok := v.(Sc); ok && sc.T.S.Kind == SBool {
		return sc.T
	}
	return x.freshTerm("cond", BoolSort)
}

// opaque marks an unmodelled expression; strict units fail, coarse units go on
// with a fresh value.
func (x *Exec) opaque(st *State, n ast.Node, why string) Value {
	t := types.Type(nil)
	if e, ok := n.(ast.Expr); ok {
		t = x.info.TypeOf(e)
	}
	if !x.coarse {
		x.fail(n.Pos(), "unsupported: %s", why)
	}
	x.abstr["expr: "+why] = true
	if t == nil {
		return Opq{why}
	}
	if tu, ok := t.(*types.Tuple); ok {
		out := Tu{}
		for i := 0; i < tu.Len(); i++ {
			out.Vs = append(out.Vs, x.fresh(st, tu.At(i).Type(), "opq"))
		}
		return out
	}
	return x.fresh(st, t, "opq")
}

func (x *Exec) expr(e ast.Expr, st *State) Value { return x.exprT(e, st, nil) }

// exprT evaluates e; want is the type an untyped constant should take.
func (x *Exec) exprT(e ast.Expr, st *State, want types.Type) Value {
	tv, hasTV := x.info.Types[e]
	if hasTV && tv.Value != nil {
		t := tv.Type
		if b, ok := t.(*types.Basic); ok && b.Info()&types.IsUntyped != 0 && want != nil {
			t = want
		}
		return x.constVal(st, tv.Value, t, e)
	}
	switch e := e.(type) {
	case *ast.ParenExpr:
		return x.exprT(e.X, st, want)
	case *ast.Ident:
		if _, isNil := x.info.ObjectOf(e).(*types.Nil); isNil && want != nil {
			if _, isSlice := want.Underlying().(*types.Slice); isSlice {
				return x.zero(want)
			}
			return Sc{IntC(0)}
		}
		return x.ident(e, st)
	case *ast.BasicLit:
		return x.opaque(st, e, "literal "+e.Value)
	case *ast.BinaryExpr:
		return x.binary(e, st)
	case *ast.UnaryExpr:
		return x.unary(e, st)
	case *ast.CallExpr:
		return x.call(e, st)
	case *ast.IndexExpr:
		return x.index(e, st)
	case *ast.SliceExpr:
		return x.sliceExpr(e, st)
	case *ast.SelectorExpr:
		return x.selector(e, st)
	case *ast.StarExpr:
		return x.deref(e, st)
	case *ast.CompositeLit:
		return x.compositeLit(e, st)
	case *ast.FuncLit:
		return Fv{Lit: e}
	case *ast.TypeAssertExpr:
		v := x.expr(e.X, st)
		t := x.info.TypeOf(e)
		x.abstr["type assertion "+x.src(e)] = true
		if tu, ok := t.(*types.Tuple); ok {
			// v, ok form: same object id, ok unknown
			okT := x.freshTerm("tyok", BoolSort)
			res := x.fresh(st, tu.At(0).Type(), "tyassert")
			if sc, ok := v.(Sc); ok {
				if rs, ok2 := res.(Sc); ok2 && rs.T.S.Eq(sc.T.S) {
					res = Sc{sc.T}
					// a concrete pointer type: ok is exactly "non-nil and of
					// that dynamic type" (as in typeSwitch)
					if _, isPtr := tu.At(0).Type().Underlying().(*types.Pointer); isPtr && sc.T.S.Kind == SInt {
						st.add(Eq(okT, And(Neq(sc.T, IntC(0)), Eq(App(dyntypeFn, sc.T), typeID(tu.At(0).Type())))))
					}
				}
			}
			return Tu{[]Value{res, Sc{okT}}}
		}
		if sc, ok := v.(Sc); ok {
			if s, ok2 := x.scalarSort(t); ok2 && s.Eq(sc.T.S) {
				return sc
			}
		}
		return x.fresh(st, t, "tyassert")
	}
	return x.opaque(st, e, fmt.Sprintf("expression %T", e))
}

func (x *Exec) constVal(st *State, cv constant.Value, t types.Type, at ast.Node) Value {
	if isStringType(t) {
		s := constant.StringVal(cv)
		return x.stringConst(s)
	}
	tm, err := x.ar.constOf(cv, t)
	if err != nil {
		if b := basicOf(t); b != nil && b.Kind() == types.UntypedNil {
			return Sc{IntC(0)}
		}
		return x.opaque(st, at, err.Error())
	}
	return Sc{tm}
}

func (x *Exec) byteSort() *Sort { return x.ar.sortOfInt(intInfo{8, false}) }

func (x *Exec) byteC(b byte) *Term {
	return x.ar.constInt(big.NewInt(int64(b)), intInfo{8, false})
}

func (x *Exec) stringConst(s string) Value {
	arr := ConstArr(ArrSort(x.ar.idxSort(), x.byteSort()), x.byteC(0))
	for i := 0; i < len(s); i++ {
		arr = Store(arr, x.ar.idxC(int64(i)), x.byteC(s[i]))
	}
	return Sl{Comp: []*Term{arr}, Off: x.ar.idxC(0), Len: x.ar.idxC(int64(len(s))), Nil: False, Str: true}
}

func (x *Exec) ident(e *ast.Ident, st *State) Value {
	obj := x.info.ObjectOf(e)
	switch o := obj.(type) {
	case *types.Var:
		if v, ok := st.vars[o]; ok {
			if bx, isBx := v.(Bx); isBx {
				return x.heapLoad(st, o.Type(), bx.P, "")
			}
			if reg := x.arrRegions[o]; reg != nil {
				// a sliced local array: the region holds the live content as
				// long as the variable itself was not assigned since
				if av, isAr := v.(Ar); isAr {
					if live, have := st.regs[reg]; have {
						snap := st.regs[x.arrSnaps[o]]
						same := len(snap) == len(av.Comp) && len(live) == len(av.Comp)
						for i := 0; same && i < len(av.Comp); i++ {
							same = snap[i] == av.Comp[i] || snap[i].String() == av.Comp[i].String()
						}
						if same {
							av.Comp = live
							return av
						}
						// the two copies diverged (e.g. merged separately at a
						// join): the content is unknown
						fr := make([]*Term, len(av.Comp))
						for i, c := range av.Comp {
							fr[i] = x.freshTerm(o.Name()+"$mix", c.S)
						}
						av.Comp = fr
						return av
					}
				}
			}
			return v
		}
		if o.Parent() == o.Pkg().Scope() || o.Pkg() != x.pkg.Types {
			return x.globalVar(o, st, e)
		}
		// captured or not yet bound variable
		v := x.fresh(st, o.Type(), o.Name())
		st.vars[o] = v
		return v
	case *types.Nil:
		t := x.info.TypeOf(e)
		if t != nil {
			if _, isSlice := t.Underlying().(*types.Slice); isSlice {
				return x.zero(t)
			}
		}
		return Sc{IntC(0)}
	case *types.Func:
		return Sc{funcID(o.FullName())}
	case *types.Const:
		return x.constVal(st, o.Val(), o.Type(), e)
	}
	return x.opaque(st, e, "identifier "+e.Name)
}

// globalVar: package-level variables. Sentinel errors are distinct constants;
// tables with literal initialisers that are never assigned are evaluated.
func (x *Exec) globalVar(o *types.Var, st *State, at ast.Node) Value {
	key := o.Pkg().Path() + "." + o.Name()
	if errorLike(o.Type()) {
		return Sc{x.errSentinel(key)}
	}
	if v, ok := x.eng.constTable(x, o, st); ok {
		return v
	}
	// heap-like global: one cell
	l := x.layout(o.Type())
	ts := make([]*Term, len(l))
	for i, c := range l {
		arr := x.heapGet(st, "global:"+key+c.Suffix, ArrSort(IntSort, c.S))
		ts[i] = Select(arr, IntC(0))
	}
	v := x.unflatten(o.Type(), ts)
	st.add(x.typeFacts(o.Type(), v))
	return v
}

func isErrorType(t types.Type) bool {
	n, ok := t.(*types.Named)
	return ok && n.Obj().Pkg() == nil && n.Obj().Name() == "error"
}

func (x *Exec) errSentinel(key string) *Term {
	id, ok := x.errIDs[key]
	if !ok {
		id = int64(1000 + len(x.errIDs))
		x.errIDs[key] = id
	}
	return IntC(id)
}

const errSentinelMax = 1000000

var errWrapsFn = &FuncDecl{Name: "errWraps", Params: []*Sort{IntSort}, Ret: IntSort}

func errRoot(e *Term) *Term {
	return Ite(ILe(e, IntC(errSentinelMax)), e, App(errWrapsFn, e))
}

// newError: a fresh non-nil, non-sentinel error wrapping `wrapped` (or nothing).
func (x *Exec) newError(st *State, wrapped *Term) *Term {
	e := x.freshTerm("err", IntSort)
	st.add(IGt(e, IntC(errSentinelMax)))
	if wrapped != nil {
		st.add(Eq(App(errWrapsFn, e), errRoot(wrapped)))
	} else {
		st.add(Eq(App(errWrapsFn, e), IntC(0)))
	}
	return e
}

func (x *Exec) arith(st *State, op token.Token, a, b *Term, ii, yii intInfo, at ast.Node) *Term {
	r := x.ar.binop(op, a, b, ii, yii)
	if r.Err != nil && op == token.AND && !x.ar.BV {
		// a & b with no constant operand (int theory): an unknown value of the
		// type that is bounded by each non-negative operand -- in two's
		// complement, 0 <= a & b <= b whenever b >= 0, whatever a is
		x.abstr["arith: & with non-constant mask (result bounded by its non-negative operands only)"] = true
		t := x.freshTerm("and", x.ar.sortOfInt(ii))
		st.add(x.ar.rangeFact(t, ii))
		st.add(Implies(IGe(b, IntC(0)), And(IGe(t, IntC(0)), ILe(t, b))))
		st.add(Implies(IGe(a, IntC(0)), And(IGe(t, IntC(0)), ILe(t, a))))
		return t
	}
	if r.Err != nil {
		if x.coarse {
			x.abstr["arith: "+r.Err.Error()] = true
			t := x.freshTerm("ar", x.ar.sortOfInt(ii))
			st.add(x.ar.rangeFact(t, ii))
			return t
		}
		x.fail(at.Pos(), "%v (%s)", r.Err, x.src(at))
		return x.freshTerm("ar", x.ar.sortOfInt(ii))
	}
	if r.Safe != nil && !r.Safe.IsTrue() {
		x.oblige(st, r.Kind, x.site(r.Kind, at), "", r.Safe, at.Pos())
		st.add(r.Safe)
	}
	if r.Ovf != nil && !r.Ovf.IsTrue() {
		if x.c != nil && x.c.Opts["assume_no_overflow"] == "true" {
			// stated assumption of the unit (e.g. a reference counter never
			// reaches 2^63): the arithmetic is exact
			x.assumes["integer arithmetic in "+x.unit.Short+" does not overflow (opt assume_no_overflow)"] = true
			st.add(r.Ovf)
			return r.T
		}
		if x.coarse && !(x.c != nil && x.c.Opts["safety"] == "true") {
			// coarse units do not claim (or assume) absence of overflow: the
			// result is the mathematical one when it fits and unknown otherwise
			// (assuming it fits would cut off the paths on which the machine
			// value wraps, e.g. an unsigned difference computed before its guard)
			t := x.freshTerm("wr", x.ar.sortOfInt(ii))
			st.add(x.ar.rangeFact(t, ii))
			st.add(Implies(r.Ovf, Eq(t, r.T)))
			return t
		}
		x.oblige(st, "ovf", x.site("ovf", at), "", r.Ovf, at.Pos())
		st.add(r.Ovf)
	}
	return r.T
}

func (x *Exec) binary(e *ast.BinaryExpr, st *State) Value {
	switch e.Op {
	case token.LAND, token.LOR:
		a := x.cond(e.X, st)
		// evaluate Y under the guard; facts learnt there are guarded too
		g := a
		if e.Op == token.LOR {
			g = Not(a)
		}
		n0 := len(st.assume)
		st.add(g)
		n1 := len(st.assume)
		f0 := x.frontier(st)
		b := x.cond(e.Y, st)
		learnt := append([]*Term(nil), st.assume[n1:]...)
		st.assume = st.assume[:n0]
		for _, f := range learnt {
			st.add(Implies(g, f))
		}
		if f1 := x.frontier(st); f1 != f0 {
			// allocations in Y happen only when Y is evaluated: the frontier
			// stays where it was otherwise (keeps it monotone)
			st.ghosts["$frontier"] = Sc{Ite(g, f1, f0)}
		}
		if e.Op == token.LAND {
			return Sc{And(a, b)}
		}
		return Sc{Or(a, b)}
	}
	xt, yt := x.info.TypeOf(e.X), x.info.TypeOf(e.Y)
	switch e.Op {
	case token.EQL, token.NEQ, token.LSS, token.LEQ, token.GTR, token.GEQ:
		ct := xt
		if b := basicOf(xt); b != nil && b.Info()&types.IsUntyped != 0 {
			ct = yt
		}
		a := x.exprT(e.X, st, ct)
		b := x.exprT(e.Y, st, ct)
		if ii, ok := intInfoOf(ct); ok {
			return Sc{x.ar.cmp(e.Op, x.scalarOf(a, ct), x.scalarOf(b, ct), ii)}
		}
		if e.Op == token.EQL || e.Op == token.NEQ {
			eq := x.valuesEqual(st, ct, a, b)
			if e.Op == token.NEQ {
				eq = Not(eq)
			}
			return Sc{eq}
		}
		if isStringType(ct) {
			// byte-wise ordering as an uninterpreted relation over string ids:
			// the same two strings always compare the same way (nothing else
			// about the order is known); contracts name it strgt(idA, idB)
			as, ok1 := a.(Sl)
			bs, ok2 := b.(Sl)
			if ok1 && ok2 {
				ka, oka := x.keyID(st, ct, as)
				kb, okb := x.keyID(st, ct, bs)
				if oka && okb {
					switch e.Op {
					case token.GTR:
						return Sc{App(x.strGtFn(), ka, kb)}
					case token.LSS:
						return Sc{App(x.strGtFn(), kb, ka)}
					case token.LEQ:
						return Sc{Not(App(x.strGtFn(), ka, kb))}
					case token.GEQ:
						return Sc{Not(App(x.strGtFn(), kb, ka))}
					}
				}
			}
			return x.opaque(st, e, "string ordering")
		}
		return x.opaque(st, e, "comparison of "+ct.String())
	}
	rt := x.info.TypeOf(e)
	if isStringType(rt) && e.Op == token.ADD {
		return x.concat(st, x.exprT(e.X, st, rt).(Sl), x.exprT(e.Y, st, rt).(Sl), e)
	}
	ii, ok := intInfoOf(rt)
	if !ok {
		return x.opaque(st, e, "binary operator on "+rt.String())
	}
	var a, b *Term
	if e.Op == token.SHL || e.Op == token.SHR {
		a = x.scalarOf(x.exprT(e.X, st, rt), rt)
		yii, ok2 := intInfoOf(yt)
		if !ok2 || (basicOf(yt) != nil && basicOf(yt).Info()&types.IsUntyped != 0) {
			yii = intInfo{64, false}
			b = x.scalarOf(x.exprT(e.Y, st, types.Typ[types.Uint]), types.Typ[types.Uint])
		} else {
			b = x.scalarOf(x.expr(e.Y, st), yt)
		}
		return Sc{x.arith(st, e.Op, a, b, ii, yii, e)}
	}
	a = x.scalarOf(x.exprT(e.X, st, rt), rt)
	b = x.scalarOf(x.exprT(e.Y, st, rt), rt)
	return Sc{x.arith(st, e.Op, a, b, ii, ii, e)}
}

// valuesEqual: Go == on comparable values.
func (x *Exec) valuesEqual(st *State, t types.Type, a, b Value) *Term {
	switch av := a.(type) {
	case Sc:
		if bv, ok := b.(Sc); ok && av.T.S.Eq(bv.T.S) {
			if isErrorType(t) || true {
				return Eq(av.T, bv.T)
			}
		}
	case Sl:
		bv, ok := b.(Sl)
		if !ok {
			break
		}
		if av.Str {
			return x.stringEq(st, av, bv)
		}
		// slice == nil
		if bv.Nil.IsTrue() {
			return av.Nil
		}
		if av.Nil.IsTrue() {
			return bv.Nil
		}
	case St:
		bv, ok := b.(St)
		u, ok2 := t.Underlying().(*types.Struct)
		if ok && ok2 {
			var cs []*Term
			for i := range av.Fields {
				cs = append(cs, x.valuesEqual(st, u.Field(i).Type(), av.Fields[i], bv.Fields[i]))
			}
			return And(cs...)
		}
	case Ar:
		bv, ok := b.(Ar)
		if ok && len(av.Comp) == len(bv.Comp) && av.N <= 64 {
			var cs []*Term
			for i := int64(0); i < av.N; i++ {
				for k := range av.Comp {
					cs = append(cs, Eq(Select(av.Comp[k], x.ar.idxC(i)), Select(bv.Comp[k], x.ar.idxC(i))))
				}
			}
			return And(cs...)
		}
	}
	x.abstr["equality on "+t.String()] = true
	return x.freshTerm("eq", BoolSort)
}

func (x *Exec) slComp(st *State, s Sl) []*Term {
	if s.Reg != nil {
		return st.regs[s.Reg]
	}
	return s.Comp
}

// stringEq: content equality. Constant-length operands unroll; otherwise a
// quantified equality.
func (x *Exec) stringEq(st *State, a, b Sl) *Term {
	ca, cb := x.slComp(st, a)[0], x.slComp(st, b)[0]
	lenEq := Eq(a.Len, b.Len)
	n := int64(-1)
	if a.Len.IsConst() {
		n = a.Len.Val.Int64()
	} else if b.Len.IsConst() {
		n = b.Len.Val.Int64()
	}
	if n >= 0 && n <= 64 {
		cs := []*Term{lenEq}
		for i := int64(0); i < n; i++ {
			cs = append(cs, Eq(Select(ca, x.idxAdd(a.Off, x.ar.idxC(i))), Select(cb, x.idxAdd(b.Off, x.ar.idxC(i)))))
		}
		return And(cs...)
	}
	k := Var(fmt.Sprintf("k!%d", x.nextEpoch()), x.ar.idxSort())
	ii := intInfo{64, true}
	body := Implies(And(x.ar.le(x.ar.idxC(0), k, ii), x.ar.lt(k, a.Len, ii)),
		Eq(Select(ca, x.idxAdd(a.Off, k)), Select(cb, x.idxAdd(b.Off, k))))
	return And(lenEq, Forall([]*Term{k}, body))
}

func (x *Exec) idxAdd(a, b *Term) *Term {
	if x.ar.BV {
		return BVBin("bvadd", a, b)
	}
	return IAdd(a, b)
}
func (x *Exec) idxSub(a, b *Term) *Term {
	if x.ar.BV {
		return BVBin("bvsub", a, b)
	}
	return ISub(a, b)
}

var idxII = intInfo{64, true}

func (x *Exec) unary(e *ast.UnaryExpr, st *State) Value {
	switch e.Op {
	case token.NOT:
		return Sc{Not(x.cond(e.X, st))}
	case token.SUB, token.XOR, token.ADD:
		t := x.info.TypeOf(e)
		ii, ok := intInfoOf(t)
		if !ok {
			return x.opaque(st, e, "unary on "+t.String())
		}
		a := x.scalarOf(x.exprT(e.X, st, t), t)
		if e.Op == token.ADD {
			return Sc{a}
		}
		var r arithRes
		if e.Op == token.SUB {
			r = x.ar.neg(a, ii)
		} else {
			r = x.ar.bitnot(a, ii)
		}
		if r.Ovf != nil && !r.Ovf.IsTrue() {
			x.oblige(st, "ovf", x.site("ovf", e), "", r.Ovf, e.Pos())
		}
		return Sc{r.T}
	case token.AND:
		return x.addrOf(e, st)
	}
	return x.opaque(st, e, "unary "+e.Op.String())
}

// addrOf: &T{...} allocates an object; &x.f / &local are opaque pointers.
func (x *Exec) addrOf(e *ast.UnaryExpr, st *State) Value {
	if cl, ok := e.X.(*ast.CompositeLit); ok {
		v := x.compositeLit(cl, st)
		t := x.info.TypeOf(cl)
		p := x.alloc(st, "new")
		x.heapStoreStruct(st, t, p, v)
		return Sc{p}
	}
	if id, ok := unparen(e.X).(*ast.Ident); ok {
		if v, ok := x.info.ObjectOf(id).(*types.Var); ok && v.Pkg() != nil && v.Parent() != v.Pkg().Scope() {
			if _, isStruct := v.Type().Underlying().(*types.Struct); isStruct {
				cur, have := st.vars[v]
				if bx, ok := cur.(Bx); ok {
					return Sc{bx.P}
				}
				if _, isSt := cur.(St); have && isSt {
					// the variable moves to the heap: from here on it is *p
					p := x.alloc(st, "addr_"+v.Name())
					x.heapStoreStruct(st, v.Type(), p, cur)
					st.vars[v] = Bx{p}
					return Sc{p}
				}
			} else if cur, have := st.vars[v]; have {
				// &err and other scalar locals (errors, integers, pointers):
				// the variable becomes a heap cell, so that a callee writing
				// through the pointer (ioutil.CheckClose(f, &err)) is seen
				if bx, ok := cur.(Bx); ok {
					return Sc{bx.P}
				}
				if _, isSc := cur.(Sc); isSc {
					p := x.alloc(st, "addr_"+v.Name())
					x.heapStoreStruct(st, v.Type(), p, cur)
					st.vars[v] = Bx{p}
					return Sc{p}
				}
			}
		}
	}
	if ix, ok := unparen(e.X).(*ast.IndexExpr); ok && x.coarse {
		// &s[i] of a slice of structs (coarse units): a fresh cell holding the
		// element's current value. Reads through the pointer see the element;
		// a write through it would not reach the slice, so the unit is
		// rejected if it assigns through such a pointer (see assignField).
		if su, ok := x.info.TypeOf(ix.X).Underlying().(*types.Slice); ok {
			if _, isStruct := su.Elem().Underlying().(*types.Struct); isStruct {
				ev := x.index(ix, st)
				if _, isSt := ev.(St); isSt {
					p := x.alloc(st, "elem")
					x.heapStoreStruct(st, su.Elem(), p, ev)
					if x.elemCells == nil {
						x.elemCells = map[*Term]bool{}
					}
					x.elemCells[p] = true
					x.assumes["pointers to slice elements ("+x.src(e)+") are only read through"] = true
					return Sc{p}
				}
			}
		}
	}
	if id, ok := unparen(e.X).(*ast.Ident); ok {
		if v, ok := x.info.ObjectOf(id).(*types.Var); ok && v.Pkg() != nil && v.Parent() != v.Pkg().Scope() {
			// &local of a slice, map, ...: whoever holds the pointer may assign
			// the variable; it is unknown after every later call
			if x.escaped == nil {
				x.escaped = map[*types.Var]bool{}
			}
			x.escaped[v] = true
		}
	}
	x.abstr["address-of "+x.src(e)] = true
	p := x.freshTerm("addr", IntSort)
	st.add(Neq(p, IntC(0)))
	return Sc{p}
}

func (x *Exec) alloc(st *State, hint string) *Term {
	p := x.freshTerm(hint, IntSort)
	st.add(IGt(p, IntC(0)))
	st.add(IGt(p, x.frontier(st)))
	st.ghosts["$frontier"] = Sc{p}
	for _, q := range x.allocd {
		st.add(Neq(p, q))
	}
	for _, q := range x.entryPtrs {
		st.add(Neq(p, q))
	}
	x.allocd = append(x.allocd, p)
	return p
}

func (x *Exec) deref(e *ast.StarExpr, st *State) Value {
	pv := x.expr(e.X, st)
	pt, ok := x.info.TypeOf(e.X).Underlying().(*types.Pointer)
	if !ok {
		return x.opaque(st, e, "deref of non-pointer")
	}
	p := x.scalarOf(pv, pt)
	x.nilCheck(st, p, e)
	return x.heapLoad(st, pt.Elem(), p, "")
}

func (x *Exec) nilCheck(st *State, p *Term, at ast.Node) {
	if x.c != nil && x.c.Opts["nonil"] == "true" {
		return
	}
	g := Neq(p, IntC(0))
	if g.IsTrue() {
		return
	}
	x.oblige(st, "nil", x.site("nil", at), "", g, at.Pos())
	st.add(g)
}

// ---- heap: pointers to structs / cells

func typeKey(t types.Type) string {
	if n, ok := t.(*types.Named); ok {
		if n.Obj().Pkg() != nil {
			return n.Obj().Pkg().Path() + "." + n.Obj().Name()
		}
		return n.Obj().Name()
	}
	if a, ok := t.(*types.Alias); ok {
		return typeKey(types.Unalias(a))
	}
	return t.String()
}

// heapLoad reads the value of type t stored at object p (prefix selects a
// sub-path for nested struct fields).
func (x *Exec) heapLoad(st *State, t types.Type, p *Term, prefix string) Value {
	l := x.layout(t)
	ts := make([]*Term, len(l))
	base := typeKey(t)
	if prefix != "" {
		base = prefix
	}
	for i, c := range l {
		arr := x.heapGet(st, base+c.Suffix, ArrSort(IntSort, c.S))
		ts[i] = Select(arr, p)
	}
	v := x.unflatten(t, ts)
	st.add(x.typeFacts(t, v))
	return v
}

func (x *Exec) heapStoreStruct(st *State, t types.Type, p *Term, v Value) {
	l := x.layout(t)
	ts := x.flatten(st, t, v)
	base := typeKey(t)
	x.noteWrite(base, p)
	for i, c := range l {
		key := base + c.Suffix
		arr := x.heapGet(st, key, ArrSort(IntSort, c.S))
		st.heap[key] = Store(arr, p, ts[i])
	}
}

// fieldPath resolves a selector through embedded fields.
// Returns the heap key base ("pkg.T.f" possibly nested ".g") and field type
// when the chain goes through a pointer; otherwise operates on struct values.
type fieldStep struct {
	owner types.Type // struct type (named if available) that declares the field
	f     *types.Var
	idx   int
}

func (x *Exec) fieldSteps(recvT types.Type, sel *types.Selection) []fieldStep {
	var steps []fieldStep
	t := recvT
	for _, i := range sel.Index() {
		if p, ok := t.Underlying().(*types.Pointer); ok {
			t = p.Elem()
		}
		s, ok := t.Underlying().(*types.Struct)
		if !ok {
			return nil
		}
		f := s.Field(i)
		steps = append(steps, fieldStep{owner: t, f: f, idx: i})
		t = f.Type()
	}
	return steps
}

func (x *Exec) selector(e *ast.SelectorExpr, st *State) Value {
	sel := x.info.Selections[e]
	if sel == nil {
		// qualified identifier pkg.Name
		return x.ident(e.Sel, st)
	}
	if sel.Kind() != types.FieldVal {
		// method value
		return Sc{funcID(sel.Obj().(*types.Func).FullName())}
	}
	base := x.expr(e.X, st)
	return x.loadPath(st, x.info.TypeOf(e.X), base, sel, e)
}

func (x *Exec) loadPath(st *State, recvT types.Type, base Value, sel *types.Selection, at ast.Node) Value {
	steps := x.fieldSteps(recvT, sel)
	if steps == nil {
		return x.opaque(st, at, "field path")
	}
	cur := base
	curT := recvT
	for _, s := range steps {
		if p, ok := curT.Underlying().(*types.Pointer); ok {
			pt := x.scalarOf(cur, curT)
			x.nilCheck(st, pt, at)
			_ = p
			cur = x.heapLoad(st, s.f.Type(), pt, typeKey(s.owner)+"."+s.f.Name())
		} else {
			sv, ok := cur.(St)
			if !ok {
				return x.fresh(st, s.f.Type(), "fld")
			}
			cur = sv.Fields[s.idx]
		}
		curT = s.f.Type()
	}
	return cur
}

func (x *Exec) heapKeysOfSelection(e *ast.SelectorExpr) []string {
	sel := x.info.Selections[e]
	if sel == nil {
		return nil
	}
	steps := x.fieldSteps(x.info.TypeOf(e.X), sel)
	if len(steps) == 0 {
		return nil
	}
	// the key is determined by the last pointer hop; conservatively report the
	// key of the last step's owner type
	s := steps[len(steps)-1]
	return []string{typeKey(s.owner) + "." + s.f.Name()}
}

func (x *Exec) heapKeyForField(pt types.Type, field string) ([]string, bool) {
	t := pt
	if p, ok := t.Underlying().(*types.Pointer); ok {
		t = p.Elem()
	}
	s, ok := t.Underlying().(*types.Struct)
	if !ok {
		return nil, false
	}
	for i := 0; i < s.NumFields(); i++ {
		if s.Field(i).Name() == field {
			return []string{typeKey(t) + "." + field}, true
		}
	}
	return nil, false
}

// ---- slices, arrays, indexing

func (x *Exec) elemLayoutFacts(st *State, t types.Type, v Value) {
	st.add(x.typeFacts(t, v))
}

func (x *Exec) readElem(st *State, sl Sl, elemT types.Type, i *Term) Value {
	comps := x.slComp(st, sl)
	pos := x.idxAdd(sl.Off, i)
	ts := make([]*Term, len(comps))
	for k, c := range comps {
		ts[k] = Select(c, pos)
	}
	v := x.unflatten(elemT, ts)
	x.elemLayoutFacts(st, elemT, v)
	return v
}

func (x *Exec) readArr(st *State, av Ar, elemT types.Type, i *Term) Value {
	ts := make([]*Term, len(av.Comp))
	for k, c := range av.Comp {
		ts[k] = Select(c, i)
	}
	v := x.unflatten(elemT, ts)
	x.elemLayoutFacts(st, elemT, v)
	return v
}

func (x *Exec) boundsCheck(st *State, i, n *Term, at ast.Node, kind string) {
	g := And(x.ar.le(x.ar.idxC(0), i, idxII), x.ar.lt(i, n, idxII))
	if g.IsTrue() {
		return
	}
	x.oblige(st, kind, x.site(kind, at), "", g, at.Pos())
	st.add(g)
}

// toIdx converts an integer-typed index value to the index sort.
func (x *Exec) toIdx(v Value, t types.Type) *Term {
	ii, ok := intInfoOf(t)
	if !ok {
		ii = idxII
	}
	tm := x.scalarOf(v, t)
	if !x.ar.BV {
		return tm
	}
	if ii.W == 64 {
		return tm // unsigned 64-bit indices >= 2^63 show up negative and fail the bounds check, as in Go
	}
	return x.ar.convert(tm, ii, idxII)
}

func (x *Exec) index(e *ast.IndexExpr, st *State) Value {
	ct := x.info.TypeOf(e.X)
	if _, isSig := ct.Underlying().(*types.Signature); isSig {
		return x.opaque(st, e, "generic instantiation")
	}
	switch u := ct.Underlying().(type) {
	case *types.Map:
		return x.mapIndex(e, st, u)
	}
	cv := x.expr(e.X, st)
	it := x.info.TypeOf(e.Index)
	iv := x.exprT(e.Index, st, types.Typ[types.Int])
	i := x.toIdx(iv, it)
	// unsigned 64-bit index in int theory: value may exceed MaxInt, still fails i < len
	switch u := ct.Underlying().(type) {
	case *types.Slice:
		sl, ok := cv.(Sl)
		if !ok {
			return x.fresh(st, u.Elem(), "elem")
		}
		x.boundsCheck(st, i, sl.Len, e, "idx")
		return x.readElem(st, sl, u.Elem(), i)
	case *types.Basic:
		if isStringType(ct) {
			sl, ok := cv.(Sl)
			if !ok {
				return x.fresh(st, types.Typ[types.Byte], "elem")
			}
			x.boundsCheck(st, i, sl.Len, e, "idx")
			return x.readElem(st, sl, types.Typ[types.Byte], i)
		}
	case *types.Array:
		av, ok := cv.(Ar)
		if !ok {
			return x.fresh(st, u.Elem(), "elem")
		}
		x.boundsCheck(st, i, x.ar.idxC(u.Len()), e, "idx")
		return x.readArr(st, av, u.Elem(), i)
	case *types.Pointer:
		if au, ok := u.Elem().Underlying().(*types.Array); ok {
			p := x.scalarOf(cv, ct)
			x.nilCheck(st, p, e)
			av := x.heapLoad(st, u.Elem(), p, "").(Ar)
			x.boundsCheck(st, i, x.ar.idxC(au.Len()), e, "idx")
			return x.readArr(st, av, au.Elem(), i)
		}
	}
	return x.opaque(st, e, "index of "+ct.String())
}

func (x *Exec) mapIndex(e *ast.IndexExpr, st *State, u *types.Map) Value {
	if v := x.mapIndexModel(e, st, u); v != nil {
		return v
	}
	x.abstr["map read "+x.src(e)] = true
	x.expr(e.X, st)
	x.expr(e.Index, st)
	t := x.info.TypeOf(e)
	if tu, ok := t.(*types.Tuple); ok {
		return Tu{[]Value{x.fresh(st, tu.At(0).Type(), "mapv"), Sc{x.freshTerm("mapok", BoolSort)}}}
	}
	return x.fresh(st, t, "mapv")
}

func (x *Exec) sliceExpr(e *ast.SliceExpr, st *State) Value {
	ct := x.info.TypeOf(e.X)
	var base Sl
	var capLen *Term
	switch u := ct.Underlying().(type) {
	case *types.Slice, *types.Basic:
		cv := x.expr(e.X, st)
		sl, ok := cv.(Sl)
		if !ok {
			return x.fresh(st, x.info.TypeOf(e), "slice")
		}
		base = sl
		capLen = sl.Len
		_ = u
	case *types.Array:
		// slicing a local array variable: the variable becomes region-backed
		sl, ok := x.arrayAsSlice(e.X, st, u)
		if !ok {
			// array-valued expression (e.g. a field of a struct value): the
			// slice is a read-only snapshot of its current content
			av, isAr := x.expr(e.X, st).(Ar)
			if !isAr {
				return x.opaque(st, e, "slice of array expression")
			}
			sl = Sl{Comp: av.Comp, Off: x.ar.idxC(0), Len: x.ar.idxC(u.Len()), Nil: False}
		}
		base = sl
		capLen = sl.Len
	case *types.Pointer:
		return x.opaque(st, e, "slice of array pointer")
	default:
		return x.opaque(st, e, "slice of "+ct.String())
	}
	lo := x.ar.idxC(0)
	hi := base.Len
	if e.Low != nil {
		lo = x.toIdx(x.exprT(e.Low, st, types.Typ[types.Int]), x.info.TypeOf(e.Low))
	}
	if e.High != nil {
		hi = x.toIdx(x.exprT(e.High, st, types.Typ[types.Int]), x.info.TypeOf(e.High))
	}
	var maxT *Term
	if e.Max != nil {
		maxT = x.toIdx(x.exprT(e.Max, st, types.Typ[types.Int]), x.info.TypeOf(e.Max))
	}
	// Go permits hi up to cap; the model only tracks len, so require hi <= len
	// (stricter; a false alarm here is reported as outside the model).
	g := And(x.ar.le(x.ar.idxC(0), lo, idxII), x.ar.le(lo, hi, idxII), x.ar.le(hi, capLen, idxII))
	if !g.IsTrue() {
		x.oblige(st, "slice", x.site("slice", e), "", g, e.Pos())
		st.add(g)
	}
	out := Sl{Reg: base.Reg, Comp: base.Comp, Off: x.idxAdd(base.Off, lo), Len: x.idxSub(hi, lo), Nil: False, Str: base.Str}
	switch {
	case maxT != nil:
		// s[lo:hi:max]: the capacity is max - lo (an append beyond hi reallocates
		// once max == hi)
		out.Cap = x.idxSub(maxT, lo)
	case base.Cap != nil:
		out.Cap = x.idxSub(base.Cap, lo)
	}
	if !base.Str {
		out.Nil = And(base.Nil, Eq(lo, x.ar.idxC(0))) // nil[0:0] stays nil
		if base.Nil.IsFalse() {
			out.Nil = False
		}
	}
	return out
}

// arrayAsSlice turns a local array variable into a region so that slices of
// it alias the variable.
func (x *Exec) arrayAsSlice(e ast.Expr, st *State, u *types.Array) (Sl, bool) {
	id, ok := e.(*ast.Ident)
	if !ok {
		return Sl{}, false
	}
	v, ok := x.info.ObjectOf(id).(*types.Var)
	if !ok {
		return Sl{}, false
	}
	cur, ok := st.vars[v]
	if !ok {
		return Sl{}, false
	}
	av, ok := cur.(Ar)
	if !ok {
		return Sl{}, false
	}
	reg := x.arrRegions[v]
	if reg == nil {
		reg = x.newRegion(v.Name())
		x.arrRegions[v] = reg
	}
	// the array variable's content moves into the region; later direct reads of
	// the variable go through the region (see ident/arrays)
	snap := x.arrSnaps[v]
	if snap == nil {
		snap = x.newRegion(v.Name() + "$snap")
		x.arrSnaps[v] = snap
	}
	if _, have := st.regs[reg]; have {
		// sliced before on this path: the region is the live copy (writes
		// through the earlier slice landed there). If the variable itself was
		// assigned since, the two copies diverged and the content is unknown.
		same := len(st.regs[snap]) == len(av.Comp)
		for i := 0; same && i < len(av.Comp); i++ {
			same = st.regs[snap][i] == av.Comp[i] || st.regs[snap][i].String() == av.Comp[i].String()
		}
		if !same {
			fr := make([]*Term, len(av.Comp))
			for i, c := range av.Comp {
				fr[i] = x.freshTerm(v.Name()+"$mix", c.S)
			}
			st.regs[reg] = fr
			st.regs[snap] = av.Comp
		}
	} else {
		st.regs[reg] = av.Comp
		st.regs[snap] = av.Comp
	}
	x.abstr["array "+v.Name()+" sliced: later direct reads of the array variable see its value before slicing"] = true
	return Sl{Reg: reg, Off: x.ar.idxC(0), Len: x.ar.idxC(u.Len()), Nil: False}, true
}

func (x *Exec) concat(st *State, a, b Sl, at ast.Node) Value {
	// result: fresh array r with r[i] = a[i] for i < len(a), r[len(a)+j] = b[j]
	ca, cb := x.slComp(st, a)[0], x.slComp(st, b)[0]
	if a.Len.IsConst() && b.Len.IsConst() && a.Len.Val.Int64()+b.Len.Val.Int64() <= 64 {
		arr := ConstArr(ArrSort(x.ar.idxSort(), x.byteSort()), x.byteC(0))
		n := int64(0)
		for i := int64(0); i < a.Len.Val.Int64(); i++ {
			arr = Store(arr, x.ar.idxC(n), Select(ca, x.idxAdd(a.Off, x.ar.idxC(i))))
			n++
		}
		for i := int64(0); i < b.Len.Val.Int64(); i++ {
			arr = Store(arr, x.ar.idxC(n), Select(cb, x.idxAdd(b.Off, x.ar.idxC(i))))
			n++
		}
		return Sl{Comp: []*Term{arr}, Off: x.ar.idxC(0), Len: x.ar.idxC(n), Nil: False, Str: true}
	}
	r := x.freshTerm("cat", ArrSort(x.ar.idxSort(), x.byteSort()))
	k := Var(fmt.Sprintf("k!%d", x.nextEpoch()), x.ar.idxSort())
	zero := x.ar.idxC(0)
	st.add(Forall([]*Term{k}, Implies(And(x.ar.le(zero, k, idxII), x.ar.lt(k, a.Len, idxII)),
		Eq(Select(r, k), Select(ca, x.idxAdd(a.Off, k)))), []*Term{Select(r, k)}))
	k2 := Var(fmt.Sprintf("k!%d", x.nextEpoch()), x.ar.idxSort())
	st.add(Forall([]*Term{k2}, Implies(And(x.ar.le(zero, k2, idxII), x.ar.lt(k2, b.Len, idxII)),
		Eq(Select(r, x.idxAdd(a.Len, k2)), Select(cb, x.idxAdd(b.Off, k2)))), []*Term{Select(cb, x.idxAdd(b.Off, k2))}))
	return Sl{Comp: []*Term{r}, Off: zero, Len: x.idxAdd(a.Len, b.Len), Nil: False, Str: true}
}

// ---- composite literals

func (x *Exec) compositeLit(e *ast.CompositeLit, st *State) Value {
	t := x.info.TypeOf(e)
	switch u := t.Underlying().(type) {
	case *types.Struct:
		sv := x.zero(t).(St)
		for i, el := range e.Elts {
			if kv, ok := el.(*ast.KeyValueExpr); ok {
				name := kv.Key.(*ast.Ident).Name
				for fi := 0; fi < u.NumFields(); fi++ {
					if u.Field(fi).Name() == name {
						v := x.exprT(kv.Value, st, u.Field(fi).Type())
						sv.Fields[fi] = x.convertTo(st, v, x.info.TypeOf(kv.Value), u.Field(fi).Type())
					}
				}
			} else {
				v := x.exprT(el, st, u.Field(i).Type())
				sv.Fields[i] = x.convertTo(st, v, x.info.TypeOf(el), u.Field(i).Type())
			}
		}
		return sv
	case *types.Map:
		m := x.newMap(st, "maplit")
		for _, el := range e.Elts {
			kv, ok := el.(*ast.KeyValueExpr)
			if !ok {
				return x.opaque(st, e, "map literal element")
			}
			kval := x.exprT(kv.Key, st, u.Key())
			k, ok := x.keyID(st, u.Key(), kval)
			if !ok {
				return x.opaque(st, e, "map literal with unmodelled key")
			}
			v := x.exprT(kv.Value, st, u.Elem())
			x.mapSet(st, u, m, k, x.convertTo(st, v, x.info.TypeOf(kv.Value), u.Elem()))
		}
		return Sc{m}
	case *types.Slice, *types.Array:
		var elemT types.Type
		if s, ok := u.(*types.Slice); ok {
			elemT = s.Elem()
		} else {
			elemT = u.(*types.Array).Elem()
		}
		l := x.layout(elemT)
		comps := make([]*Term, len(l))
		for i, c := range l {
			comps[i] = ConstArr(ArrSort(x.ar.idxSort(), c.S), x.zeroOfSort(c.S, c.Suffix))
		}
		n := int64(0)
		idx := int64(0)
		for _, el := range e.Elts {
			ve := el
			if kv, ok := el.(*ast.KeyValueExpr); ok {
				tvk, ok := x.info.Types[kv.Key]
				if !ok || tvk.Value == nil {
					return x.opaque(st, e, "composite literal with non-constant key")
				}
				k, _ := constant.Int64Val(constant.ToInt(tvk.Value))
				idx = k
				ve = kv.Value
			}
			var v Value
			if cl, ok := ve.(*ast.CompositeLit); ok && cl.Type == nil {
				v = x.compositeLitOf(cl, st, elemT)
			} else {
				v = x.convertTo(st, x.exprT(ve, st, elemT), x.info.TypeOf(ve), elemT)
			}
			ts := x.flatten(st, elemT, v)
			for k := range comps {
				comps[k] = Store(comps[k], x.ar.idxC(idx), ts[k])
			}
			idx++
			if idx > n {
				n = idx
			}
		}
		if a, ok := u.(*types.Array); ok {
			return Ar{Comp: comps, N: a.Len()}
		}
		reg := x.newRegion("lit")
		st.regs[reg] = comps
		return Sl{Reg: reg, Off: x.ar.idxC(0), Len: x.ar.idxC(n), Nil: False}
	}
	return x.opaque(st, e, "composite literal of "+t.String())
}

func (x *Exec) compositeLitOf(e *ast.CompositeLit, st *State, t types.Type) Value {
	// elided type: go/types records it on the literal
	return x.compositeLit(e, st)
}

// ---- conversion between Go types

func (x *Exec) convertTo(st *State, v Value, from, to types.Type) Value {
	if from == nil || to == nil || types.Identical(from, to) {
		return v
	}
	if _, toIface := to.Underlying().(*types.Interface); toIface {
		if _, isSc := v.(Sc); !isSc {
			// a non-pointer value boxed into an interface: a fresh object
			// (its content is not tracked through the interface)
			x.abstr["value of type "+from.String()+" boxed into an interface"] = true
			return Sc{x.alloc(st, "box")}
		}
		if pt, isPtr := from.Underlying().(*types.Pointer); isPtr {
			if _, named := pt.Elem().(*types.Named); named {
				// a non-nil *T stored in an interface has dynamic type *T
				sc := v.(Sc)
				if sc.T.S.Kind == SInt {
					st.add(Implies(Neq(sc.T, IntC(0)), Eq(App(dyntypeFn, sc.T), typeID(from))))
				}
			}
		}
		return v
	}
	fi, okf := intInfoOf(from)
	ti, okt := intInfoOf(to)
	if okf && okt {
		if sc, ok := v.(Sc); ok {
			if b := basicOf(from); b != nil && b.Info()&types.IsUntyped != 0 {
				// constant already materialised at the wanted type
				if s := x.ar.sortOfInt(ti); sc.T.S.Eq(s) {
					return sc
				}
			}
			if sc.T.S.Eq(x.ar.sortOfInt(fi)) {
				return Sc{x.ar.convert(sc.T, fi, ti)}
			}
		}
		return v
	}
	return v
}

// ---- assignment

func (x *Exec) assign(s *ast.AssignStmt, st *State) {
	if s.Tok != token.ASSIGN && s.Tok != token.DEFINE {
		// op-assign
		var op token.Token
		switch s.Tok {
		case token.ADD_ASSIGN:
			op = token.ADD
		case token.SUB_ASSIGN:
			op = token.SUB
		case token.MUL_ASSIGN:
			op = token.MUL
		case token.QUO_ASSIGN:
			op = token.QUO
		case token.REM_ASSIGN:
			op = token.REM
		case token.AND_ASSIGN:
			op = token.AND
		case token.OR_ASSIGN:
			op = token.OR
		case token.XOR_ASSIGN:
			op = token.XOR
		case token.SHL_ASSIGN:
			op = token.SHL
		case token.SHR_ASSIGN:
			op = token.SHR
		case token.AND_NOT_ASSIGN:
			op = token.AND_NOT
		}
		lt := x.info.TypeOf(s.Lhs[0])
		if isStringType(lt) && op == token.ADD {
			a := x.expr(s.Lhs[0], st).(Sl)
			b := x.exprT(s.Rhs[0], st, lt).(Sl)
			x.store(s.Lhs[0], x.concat(st, a, b, s), st)
			return
		}
		ii, ok := intInfoOf(lt)
		if !ok {
			x.opaque(st, s.Lhs[0], "op-assign on "+lt.String())
			return
		}
		a := x.scalarOf(x.expr(s.Lhs[0], st), lt)
		var b *Term
		yii := ii
		if op == token.SHL || op == token.SHR {
			yt := x.info.TypeOf(s.Rhs[0])
			var ok2 bool
			yii, ok2 = intInfoOf(yt)
			if !ok2 || basicOf(yt).Info()&types.IsUntyped != 0 {
				yii = intInfo{64, false}
				b = x.scalarOf(x.exprT(s.Rhs[0], st, types.Typ[types.Uint]), types.Typ[types.Uint])
			} else {
				b = x.scalarOf(x.expr(s.Rhs[0], st), yt)
			}
		} else {
			b = x.scalarOf(x.exprT(s.Rhs[0], st, lt), lt)
		}
		r := x.arith(st, op, a, b, ii, yii, s)
		x.store(s.Lhs[0], Sc{r}, st)
		return
	}
	// evaluate RHS
	var vals []Value
	if len(s.Rhs) == 1 && len(s.Lhs) > 1 {
		v := x.expr(s.Rhs[0], st)
		tu, ok := v.(Tu)
		if !ok || len(tu.Vs) != len(s.Lhs) {
			for _, l := range s.Lhs {
				vals = append(vals, x.fresh(st, x.lhsType(l), "multi"))
			}
		} else {
			vals = tu.Vs
		}
	} else {
		for i, r := range s.Rhs {
			lt := x.lhsType(s.Lhs[i])
			v := x.exprT(r, st, lt)
			vals = append(vals, x.convertTo(st, v, x.info.TypeOf(r), lt))
		}
	}
	for i, l := range s.Lhs {
		if id, ok := l.(*ast.Ident); ok && id.Name == "_" {
			continue
		}
		if s.Tok == token.DEFINE {
			if id, ok := l.(*ast.Ident); ok {
				if v, ok := x.info.Defs[id].(*types.Var); ok {
					st.vars[v] = vals[i]
					continue
				}
			}
		}
		x.store(l, vals[i], st)
	}
}

func (x *Exec) lhsType(l ast.Expr) types.Type {
	if id, ok := l.(*ast.Ident); ok {
		if o := x.info.ObjectOf(id); o != nil {
			return o.Type()
		}
		return nil
	}
	return x.info.TypeOf(l)
}

// store writes v to the location denoted by lvalue l.
func (x *Exec) store(l ast.Expr, v Value, st *State) {
	switch l := l.(type) {
	case *ast.ParenExpr:
		x.store(l.X, v, st)
	case *ast.Ident:
		if l.Name == "_" {
			return
		}
		o, ok := x.info.ObjectOf(l).(*types.Var)
		if !ok {
			x.fail(l.Pos(), "assignment to non-variable")
			return
		}
		if o.Parent() == o.Pkg().Scope() {
			// package-level variable cell
			lay := x.layout(o.Type())
			ts := x.flatten(st, o.Type(), v)
			for i, c := range lay {
				key := "global:" + o.Pkg().Path() + "." + o.Name() + c.Suffix
				arr := x.heapGet(st, key, ArrSort(IntSort, c.S))
				st.heap[key] = Store(arr, IntC(0), ts[i])
			}
			return
		}
		if bx, isBx := st.vars[o].(Bx); isBx {
			x.heapStoreStruct(st, o.Type(), bx.P, v)
			return
		}
		st.vars[o] = v
		if reg := x.arrRegions[o]; reg != nil {
			// a sliced local array: earlier slices alias the variable, so the
			// assignment is visible through them
			if av, isAr := v.(Ar); isAr {
				if live, have := st.regs[reg]; have && len(live) == len(av.Comp) {
					st.regs[reg] = av.Comp
					st.regs[x.arrSnaps[o]] = av.Comp
				}
			}
		}
	case *ast.IndexExpr:
		x.storeIndex(l, v, st)
	case *ast.SelectorExpr:
		x.storeField(l, v, st)
	case *ast.StarExpr:
		pt, ok := x.info.TypeOf(l.X).Underlying().(*types.Pointer)
		if !ok {
			x.fail(l.Pos(), "store through non-pointer")
			return
		}
		p := x.scalarOf(x.expr(l.X, st), pt)
		x.nilCheck(st, p, l)
		x.heapStoreStruct(st, pt.Elem(), p, v)
	default:
		x.fail(l.Pos(), "unsupported assignment target %T", l)
	}
}

func (x *Exec) storeField(l *ast.SelectorExpr, v Value, st *State) {
	sel := x.info.Selections[l]
	if sel == nil {
		x.store(l.Sel, v, st)
		return
	}
	recvT := x.info.TypeOf(l.X)
	steps := x.fieldSteps(recvT, sel)
	if steps == nil {
		x.fail(l.Pos(), "unsupported field path")
		return
	}
	// walk to the last pointer hop
	type hop struct {
		val Value
		t   types.Type
	}
	cur := x.expr(l.X, st)
	curT := recvT
	lastPtr := -1
	vals := []hop{{cur, curT}}
	for i, s := range steps {
		if _, ok := curT.Underlying().(*types.Pointer); ok {
			lastPtr = i
		}
		if i == len(steps)-1 {
			break
		}
		if _, ok := curT.Underlying().(*types.Pointer); ok {
			p := x.scalarOf(cur, curT)
			cur = x.heapLoad(st, s.f.Type(), p, typeKey(s.owner)+"."+s.f.Name())
		} else if sv, ok := cur.(St); ok {
			cur = sv.Fields[s.idx]
		} else {
			x.fail(l.Pos(), "unsupported field path value")
			return
		}
		curT = s.f.Type()
		vals = append(vals, hop{cur, curT})
	}
	// rebuild from the end: nested value-struct updates, then one heap store or variable store
	newV := v
	for i := len(steps) - 1; i >= 0; i-- {
		h := vals[i]
		if _, ok := h.t.Underlying().(*types.Pointer); ok {
			p := x.scalarOf(h.val, h.t)
			if x.elemCells[p] {
				x.fail(l.Pos(), "unsupported: assignment through a pointer to a slice element (%s)", x.src(l))
				return
			}
			x.nilCheck(st, p, l)
			s := steps[i]
			lay := x.layout(s.f.Type())
			ts := x.flatten(st, s.f.Type(), newV)
			x.noteWrite(typeKey(s.owner)+"."+s.f.Name(), p)
			for k, c := range lay {
				key := typeKey(s.owner) + "." + s.f.Name() + c.Suffix
				arr := x.heapGet(st, key, ArrSort(IntSort, c.S))
				st.heap[key] = Store(arr, p, ts[k])
			}
			return
		}
		sv, ok := h.val.(St)
		if !ok {
			x.fail(l.Pos(), "unsupported struct update")
			return
		}
		nf := append([]Value(nil), sv.Fields...)
		nf[steps[i].idx] = newV
		newV = St{Fields: nf}
	}
	_ = lastPtr
	// whole chain is by-value: write back to the root variable
	x.store(l.X, newV, st)
}

func (x *Exec) storeIndex(l *ast.IndexExpr, v Value, st *State) {
	ct := x.info.TypeOf(l.X)
	switch u := ct.Underlying().(type) {
	case *types.Map:
		mv := x.expr(l.X, st)
		kv := x.exprT(l.Index, st, u.Key())
		if msc, ok := mv.(Sc); ok {
			if k, ok := x.keyID(st, u.Key(), kv); ok {
				x.mapSet(st, u, msc.T, k, v)
				return
			}
		}
		x.abstr["map write "+x.src(l)] = true
		return
	case *types.Slice:
		cv := x.expr(l.X, st)
		sl, ok := cv.(Sl)
		if !ok {
			x.fail(l.Pos(), "store into unmodelled slice")
			return
		}
		i := x.toIdx(x.exprT(l.Index, st, types.Typ[types.Int]), x.info.TypeOf(l.Index))
		x.boundsCheck(st, i, sl.Len, l, "idx")
		ts := x.flatten(st, u.Elem(), v)
		pos := x.idxAdd(sl.Off, i)
		if sl.Reg != nil {
			old := st.regs[sl.Reg]
			nt := make([]*Term, len(old))
			for k := range old {
				nt[k] = Store(old[k], pos, ts[k])
			}
			st.regs[sl.Reg] = nt
			return
		}
		// snapshot slice: write back through the container lvalue if it is a field or variable
		nc := make([]*Term, len(sl.Comp))
		for k := range sl.Comp {
			nc[k] = Store(sl.Comp[k], pos, ts[k])
		}
		nsl := sl
		nsl.Comp = nc
		switch l.X.(type) {
		case *ast.SelectorExpr, *ast.Ident:
			x.store(l.X, nsl, st)
			x.abstr["write through untracked slice "+x.src(l.X)+" (aliases not updated)"] = true
		default:
			x.fail(l.Pos(), "write through untracked slice")
		}
	case *types.Array:
		cv := x.expr(l.X, st)
		av, ok := cv.(Ar)
		if !ok {
			x.fail(l.Pos(), "store into unmodelled array")
			return
		}
		i := x.toIdx(x.exprT(l.Index, st, types.Typ[types.Int]), x.info.TypeOf(l.Index))
		x.boundsCheck(st, i, x.ar.idxC(u.Len()), l, "idx")
		ts := x.flatten(st, u.Elem(), v)
		nc := make([]*Term, len(av.Comp))
		for k := range av.Comp {
			nc[k] = Store(av.Comp[k], i, ts[k])
		}
		x.store(l.X, Ar{Comp: nc, N: av.N}, st)
	default:
		x.fail(l.Pos(), "unsupported indexed store into %s", ct)
	}
}

func describe(v Value) string {
	switch v := v.(type) {
	case Sc:
		return v.T.String()
	case Sl:
		return fmt.Sprintf("slice(off=%s,len=%s)", v.Off, v.Len)
	}
	return strings.TrimPrefix(fmt.Sprintf("%T", v), "main.")
}

var errorIface = types.Universe.Lookup("error").Type().Underlying().(*types.Interface)

// errorLike: the error interface itself or a concrete type implementing it.
func errorLike(t types.Type) bool {
	if t == nil {
		return false
	}
	if isErrorType(t) {
		return true
	}
	if _, ok := t.Underlying().(*types.Interface); ok {
		return false
	}
	return types.Implements(t, errorIface)
}
