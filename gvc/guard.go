package main

// Ownership rule of a struct field ("guard Type.field"): the field holds a
// capability (the raw filesystem under the worktree wrapper) that only
// functions under contract for the guard's properties may touch. One
// obligation per function of the package that selects the field, explicitly
// or through a promoted method not on the allow list: it holds when that
// function has a verified (not trusted) contract carrying the guard's
// properties, whose sinks then speak about what reaches the capability. A new
// method that forwards to the raw capability without a contract fails its
// obligation. Decided on the typed AST; no solver query.

import (
	"fmt"
	"go/ast"
	"go/types"
	"sort"
)

func (e *Engine) verifyGuard(c *Contract) *UnitResult {
	res := &UnitResult{Contract: c, Theory: c.Theory, File: shortFile(c.File)}
	u := &Unit{Key: c.Key, Short: c.Short, C: c}
	res.Unit = u
	p := e.pkgs[c.Pkg]
	if p == nil {
		res.Missing = true
		res.Errors = append(res.Errors, "package "+c.Pkg+" not loaded")
		return res
	}
	tn, _ := p.Types.Scope().Lookup(c.GuardTyp).(*types.TypeName)
	if tn == nil {
		res.Missing = true
		res.Errors = append(res.Errors, "guarded type "+c.GuardTyp+" not found")
		return res
	}
	stt, _ := tn.Type().Underlying().(*types.Struct)
	fidx := -1
	if stt != nil {
		for i := 0; i < stt.NumFields(); i++ {
			if stt.Field(i).Name() == c.GuardFld {
				fidx = i
			}
		}
	}
	if fidx < 0 {
		res.Missing = true
		res.Errors = append(res.Errors, "guarded field "+c.GuardFld+" not found")
		return res
	}
	allow := map[string]bool{}
	for _, a := range c.Allow {
		allow[a] = true
	}
	isGuarded := func(t types.Type) bool {
		if pt, ok := t.Underlying().(*types.Pointer); ok {
			t = pt.Elem()
		}
		n, ok := t.(*types.Named)
		return ok && n.Obj() == tn
	}
	type hit struct {
		fn   string
		what string
		pos  string
	}
	hits := map[string][]hit{}
	for _, f := range p.Syntax {
		for _, d := range f.Decls {
			fd, ok := d.(*ast.FuncDecl)
			if !ok || fd.Body == nil {
				continue
			}
			fn, ok := p.TypesInfo.Defs[fd.Name].(*types.Func)
			if !ok {
				continue
			}
			key := funcKey(fn)
			ast.Inspect(fd.Body, func(n ast.Node) bool {
				se, ok := n.(*ast.SelectorExpr)
				if !ok {
					return true
				}
				sel := p.TypesInfo.Selections[se]
				if sel == nil || !isGuarded(sel.Recv()) {
					return true
				}
				idx := sel.Index()
				if len(idx) == 0 || idx[0] != fidx {
					return true
				}
				pos := p.Fset.Position(se.Pos())
				where := fmt.Sprintf("%s:%d", shortFile(pos.Filename), pos.Line)
				if len(idx) == 1 && sel.Kind() == types.FieldVal {
					hits[key] = append(hits[key], hit{key, "selects ." + c.GuardFld, where})
				} else if !allow[sel.Obj().Name()] {
					hits[key] = append(hits[key], hit{key, "reaches " + sel.Obj().Name() + " through the embedded " + c.GuardFld, where})
				}
				return true
			})
		}
	}
	var keys []string
	for k := range hits {
		keys = append(keys, k)
	}
	sort.Strings(keys)
	// the rule itself is never vacuous silently: the count is an obligation name
	for _, k := range keys {
		fc := e.cs.Funcs[k]
		good := fc != nil && !fc.Trusted
		if good {
			for _, pr := range c.Props {
				if !propsContain(fc.Props, pr) {
					good = false
				}
			}
		}
		goal := True
		if !good {
			goal = False
		}
		h := hits[k][0]
		o := &Obligation{Unit: c.Key, Name: c.Short + ".owner[" + trimPkg(k) + "]", Kind: "guard", Label: "owner",
			Goal: goal, Props: c.Props, Pos: h.pos}
		o.Status, o.Solver = "unsat", "typed-ast"
		if !good {
			o.Status = "sat"
			o.Output = fmt.Sprintf("%s %s (%s) without a verified contract for %v", trimPkg(k), h.what, h.pos, c.Props)
		}
		res.Obligs = append(res.Obligs, o)
	}
	if len(keys) == 0 {
		res.Errors = append(res.Errors, "vacuity: no function touches "+c.GuardTyp+"."+c.GuardFld)
	}
	return res
}
