package main

import (
	"encoding/json"
	"flag"
	"fmt"
	"os"
	"path/filepath"
	"runtime"
	"sort"
	"strconv"
	"strings"
	"time"
)

type KnownFinding struct {
	ID         string `json:"id"`
	Property   string `json:"property"`
	Obligation string `json:"obligation"`
	InputClass string `json:"input_class"`
	Witness    string `json:"witness"`
	Status     string `json:"status"` // open | fixed
	Commit     string `json:"commit,omitempty"`
	What       string `json:"what"`
}

type KnownFindings struct {
	Findings []KnownFinding `json:"findings"`
}

func loadKF(path string) *KnownFindings {
	kf := &KnownFindings{}
	b, err := os.ReadFile(path)
	if err != nil {
		return kf
	}
	if err := json.Unmarshal(b, kf); err != nil {
		fmt.Fprintf(os.Stderr, "gvc: %s: %v\n", path, err)
		os.Exit(2)
	}
	return kf
}

func (k *KnownFindings) open(id string) *KnownFinding {
	for i := range k.Findings {
		if k.Findings[i].ID == id && k.Findings[i].Status == "open" {
			return &k.Findings[i]
		}
	}
	return nil
}

func envOr(k, d string) string {
	if v := os.Getenv(k); v != "" {
		return v
	}
	return d
}

func main() {
	// go/packages resolves `go` through PATH: the repository needs go1.26
	os.Setenv("PATH", "/opt/veriftools/go1.26.8/bin:"+os.Getenv("PATH"))
	for _, kv := range []string{"GOFLAGS=-mod=mod", "GOPROXY=off", "GOSUMDB=off", "GOTOOLCHAIN=local", "CGO_ENABLED=0"} {
		i := strings.Index(kv, "=")
		os.Setenv(kv[:i], kv[i+1:])
	}
	// a runaway engine must not take the machine down: give up (engine error,
	// never a violation) beyond 12 GiB
	go func() {
		for {
			time.Sleep(2 * time.Second)
			var ms runtime.MemStats
			runtime.ReadMemStats(&ms)
			if ms.HeapAlloc > 12<<30 {
				fmt.Fprintln(os.Stderr, "ENGINE-ERROR: memory limit exceeded (12 GiB)")
				os.Exit(2)
			}
		}
	}()
	if len(os.Args) < 2 {
		fmt.Fprintln(os.Stderr, "usage: gvc check <PROP> [quick|thorough] | gvc unit <pattern> | gvc list")
		os.Exit(2)
	}
	repo := envOr("GVC_REPO", "/repo")
	verif := envOr("GVC_VERIF", "/verif")
	switch os.Args[1] {
	case "check":
		fs := flag.NewFlagSet("check", flag.ExitOnError)
		keep := fs.Bool("keep", false, "keep SMT files")
		fs.Parse(os.Args[2:])
		args := fs.Args()
		if len(args) < 1 {
			fmt.Fprintln(os.Stderr, "usage: gvc check <PROP> [quick|thorough]")
			os.Exit(2)
		}
		tier := "quick"
		if len(args) > 1 {
			tier = args[1]
		}
		if t := os.Getenv("VERIF_TIER"); t != "" && len(args) < 2 {
			tier = t
		}
		os.Exit(runCheck(repo, verif, args[0], tier, *keep))
	case "unit":
		fs := flag.NewFlagSet("unit", flag.ExitOnError)
		verbose := fs.Bool("v", false, "print SMT file names")
		fs.Parse(os.Args[2:])
		os.Exit(runUnits(repo, verif, fs.Args(), *verbose))
	case "sweep":
		os.Exit(runSweep(repo, verif, os.Args[2:]))
	case "selftest":
		prop := ""
		if len(os.Args) > 2 {
			prop = os.Args[2]
		}
		total, caught, rep := runSelftest(repo, verif, prop, 10*time.Second)
		for _, l := range rep {
			fmt.Println(l)
		}
		fmt.Printf("selftest: %d/%d seeded changes caught\n", caught, total)
		if caught != total {
			os.Exit(2)
		}
	case "list":
		e := newEngine(repo, verif)
		if err := e.loadContracts(); err != nil {
			fmt.Fprintln(os.Stderr, "gvc:", err)
			os.Exit(2)
		}
		var keys []string
		for k, c := range e.cs.Funcs {
			if !c.Trusted {
				keys = append(keys, fmt.Sprintf("%-12s %s", strings.Join(c.Props, ","), trimPkg(k)))
			}
		}
		sort.Strings(keys)
		for _, k := range keys {
			fmt.Println(k)
		}
	default:
		fmt.Fprintln(os.Stderr, "unknown command", os.Args[1])
		os.Exit(2)
	}
}

func seedFromEnv() int {
	s, _ := strconv.Atoi(os.Getenv("VERIF_SEED"))
	return s
}

func selectContracts(e *Engine, pred func(c *Contract) bool) []*Contract {
	var out []*Contract
	for _, c := range e.cs.Funcs {
		if c.Trusted || !pred(c) || strings.HasPrefix(c.Key, "field:") {
			// field contracts are assumptions about stored functions, not units
			continue
		}
		out = append(out, c)
	}
	sort.Slice(out, func(i, j int) bool { return out[i].Key < out[j].Key })
	return out
}

func verifyContracts(e *Engine, cs []*Contract, d *Discharger) ([]*UnitResult, error) {
	pkgSet := map[string]bool{}
	for _, c := range cs {
		if c.Pkg != "" {
			pkgSet[c.Pkg] = true
		}
	}
	var pkgs []string
	for p := range pkgSet {
		pkgs = append(pkgs, p)
	}
	sort.Strings(pkgs)
	if err := e.loadPackages(pkgs); err != nil {
		return nil, err
	}
	var results []*UnitResult
	ars := map[*Obligation]*Arith{}
	var all []*Obligation
	for _, c := range cs {
		r := e.verifyUnit(c)
		results = append(results, r)
		ar := &Arith{BV: c.Theory == "bv", MathW: 128}
		for _, o := range r.Obligs {
			ars[o] = ar
			all = append(all, o)
		}
	}
	dischargeAll(all, ars, d)
	return results, nil
}

func runUnits(repo, verif string, pats []string, verbose bool) int {
	e := newEngine(repo, verif)
	if err := e.loadContracts(); err != nil {
		fmt.Fprintln(os.Stderr, "gvc:", err)
		return 2
	}
	cs := selectContracts(e, func(c *Contract) bool {
		for _, p := range pats {
			if strings.Contains(c.Key, p) || propsContain(c.Props, p) {
				return true
			}
		}
		return len(pats) == 0
	})
	work, _ := os.MkdirTemp("", "gvc")
	if !verbose {
		defer os.RemoveAll(work)
	}
	to := 10 * time.Second
	if v := os.Getenv("GVC_TIMEOUT"); v != "" {
		if n, err := strconv.Atoi(v); err == nil {
			to = time.Duration(n) * time.Second
		}
	}
	d := &Discharger{workDir: work, timeout: to, sem: make(chan struct{}, 8)}
	results, err := verifyContracts(e, cs, d)
	if err != nil {
		fmt.Fprintln(os.Stderr, "gvc:", err)
		return 2
	}
	bad := 0
	for _, r := range results {
		fmt.Printf("== %s [%s] %s\n", trimPkg(r.Contract.Key), r.Theory, r.File)
		for _, er := range r.Errors {
			fmt.Printf("   ERROR %s\n", er)
			bad++
		}
		for _, o := range r.Obligs {
			mark := "ok  "
			switch {
			case o.Cover:
				if o.Status == "sat" {
					mark = "cov "
				} else {
					mark = "COV?"
				}
			case o.MustFail:
				if o.Status == "unsat" {
					mark = "KF-GONE"
				} else {
					mark = "kf  "
				}
			case o.Status != "unsat" && o.Status != "unsat1":
				mark = "FAIL"
				bad++
			}
			fmt.Printf("   %s %-7s %5dms %-10s %s", mark, o.Status, o.Ms, o.Solver, o.Name)
			if verbose {
				fmt.Printf("  [%s] %s", o.Pos, o.SMT)
			}
			fmt.Println()
			if mark == "FAIL" && o.Model != nil {
				var ks []string
				for k := range o.Model {
					ks = append(ks, k)
				}
				sort.Strings(ks)
				var parts []string
				for _, k := range ks {
					if strings.Contains(k, "[") {
						continue
					}
					parts = append(parts, k+"="+o.Model[k])
				}
				fmt.Printf("        model: %s\n", strings.Join(parts, " "))
			}
			if mark == "FAIL" && o.Model == nil && o.Output != "" {
				fmt.Printf("        %s\n", firstLines(o.Output, 2))
			}
		}
		if verbose {
			for _, a := range r.Abstr {
				fmt.Printf("   abstr: %s\n", a)
			}
		}
	}
	if verbose {
		fmt.Println("work dir:", work)
	}
	if bad > 0 {
		return 1
	}
	return 0
}

// ---- check: the registered command

type evObl struct {
	Name    string `json:"name"`
	Kind    string `json:"kind"`
	Theory  string `json:"theory"`
	Status  string `json:"status"`
	Solver  string `json:"solver"`
	Ms      int64  `json:"ms"`
	Bounded int    `json:"bounded,omitempty"`
}

type evUnit struct {
	Func   string `json:"func"`
	File   string `json:"file"`
	SHA    string `json:"sha256_16"`
	Theory string `json:"theory"`
}

func runCheck(repo, verif, prop, tier string, keep bool) int {
	t0 := time.Now()
	e := newEngine(repo, verif)
	if err := e.loadContracts(); err != nil {
		fmt.Fprintln(os.Stderr, "gvc: contract error:", err)
		return 2
	}
	e.kf = loadKF(filepath.Join(verif, "known_findings.json"))
	cs := selectContracts(e, func(c *Contract) bool { return propsContain(c.Props, prop) || clauseProps(c, prop) })
	if len(cs) == 0 {
		fmt.Fprintf(os.Stderr, "gvc: no contracts for %s\n", prop)
		return 2
	}
	work, _ := os.MkdirTemp("", "gvc-"+prop)
	defer os.RemoveAll(work)
	to := 10 * time.Second
	if tier == "thorough" {
		to = 60 * time.Second
	}
	d := &Discharger{workDir: work, timeout: to, thorough: tier == "thorough", sem: make(chan struct{}, 10), seed: seedFromEnv()}
	results, err := verifyContracts(e, cs, d)
	if err != nil {
		fmt.Fprintln(os.Stderr, "gvc: load error:", err)
		return 2
	}
	replayDir := filepath.Join(verif, "replays", prop)
	os.MkdirAll(replayDir, 0o755)

	obls := []evObl{}
	units := []evUnit{}
	var samples []interface{}
	undecided, kfLines, violLines, engineErrs := []string{}, []string{}, []string{}, []string{}
	assumptions := map[string]bool{}
	trusted := map[string]bool{}
	abstracted := map[string]bool{}
	nObl, nDis, nBounded := 0, 0, 0
	nCover, nCovered := 0, 0
	unreachable := []string{}
	reachableRet, hasRet := map[string]bool{}, map[string]bool{}
	kfSeen := map[string]string{} // finding id -> KNOWN-FINDING line ("" while only discharged canaries were seen)
	var solverMs int64
	for _, r := range results {
		if r.Missing {
			undecided = append(undecided, fmt.Sprintf("unit %s: %s", trimPkg(r.Contract.Key), strings.Join(r.Errors, "; ")))
			continue
		}
		units = append(units, evUnit{trimPkg(r.Contract.Key), r.File, r.SHA, r.Theory})
		if len(r.Errors) > 0 {
			// The unit exists but can no longer be verified against its
			// contract (a clause no longer binds, or the body left the
			// subset): every obligation of the unit that was discharged on
			// the unchanged tree can no longer be established. Reported as a
			// violation of the obligation `<unit>.verifiable`, without a
			// failing input (a silent pass would hide, for example, the
			// removal of the very bookkeeping an invariant speaks about).
			undecided = append(undecided, fmt.Sprintf("unit %s outside the verified subset: %s", trimPkg(r.Contract.Key), strings.Join(r.Errors, "; ")))
			if propsContain(r.Contract.Props, prop) {
				o := &Obligation{Name: r.Contract.Short + ".verifiable", Kind: "unit", Status: "rejected",
					Output: "the unit could not be verified against its contract: " + strings.Join(r.Errors, "; ")}
				path := writeReplay(replayDir, prop, o, r, e, "unit rejected: no obligation of it can be re-established; not executed")
				violLines = append(violLines, fmt.Sprintf("VIOLATION property=%s replay=%s no-failing-input-found", prop, path))
			}
		}
		for _, a := range r.Assumes {
			assumptions[a] = true
		}
		for _, a := range r.Abstr {
			abstracted[trimPkg(r.Contract.Short)+": "+a] = true
		}
		for _, u := range r.Used {
			if strings.HasPrefix(u, "trusted: ") {
				trusted[trimPkg(u)] = true
			}
		}
		for _, o := range r.Obligs {
			if !propsContain(o.Props, prop) {
				continue
			}
			solverMs += o.Ms
			name := trimPkg(o.Name)
			switch {
			case o.Cover:
				nCover++
				switch {
				case o.Status == "sat":
					nCovered++
					if strings.Contains(name, ".cover.ret") {
						reachableRet[r.Contract.Key] = true
					}
				case o.Status == "unsat" && strings.HasSuffix(name, "cover.requires"):
					engineErrs = append(engineErrs, fmt.Sprintf("vacuity: precondition of %s is unsatisfiable", trimPkg(r.Contract.Key)))
				case o.Status == "unsat" && strings.HasSuffix(name, ".cover.body"):
					engineErrs = append(engineErrs, fmt.Sprintf("vacuity: loop body unreachable under the invariant: %s", name))
				case o.Status == "unsat":
					unreachable = append(unreachable, name)
				default:
					assumptions["cover query "+name+" not established ("+o.Status+")"] = true
					if strings.Contains(name, ".cover.ret") {
						reachableRet[r.Contract.Key] = true
					}
				}
				if strings.Contains(name, ".cover.ret") {
					hasRet[r.Contract.Key] = true
				}
				continue
			case o.MustFail:
				kf := e.kf.open(o.KF)
				if kf == nil {
					engineErrs = append(engineErrs, fmt.Sprintf("contract carve-out %s has no open entry in known_findings.json", o.KF))
					continue
				}
				// a finding reproduces when at least one of its canaries fails
				if o.Status == "unsat" || o.Status == "unsat1" {
					if _, seen := kfSeen[kf.ID]; !seen {
						kfSeen[kf.ID] = ""
					}
				} else if kfSeen[kf.ID] == "" {
					kfSeen[kf.ID] = fmt.Sprintf("KNOWN-FINDING: property=%s %s %s: %s", prop, kf.ID, name, kf.What)
				}
				continue
			}
			eo := evObl{Name: name, Kind: o.Kind, Theory: r.Theory, Status: o.Status, Solver: o.Solver, Ms: o.Ms, Bounded: o.Bounded}
			obls = append(obls, eo)
			if o.Bounded > 0 {
				nBounded++
				if o.Status != "unsat" && o.Status != "unsat1" {
					path := writeReplay(replayDir, prop, o, r, e, "bounded")
					violLines = append(violLines, fmt.Sprintf("VIOLATION property=%s replay=%s", prop, path))
				}
				continue
			}
			nObl++
			switch o.Status {
			case "unsat", "unsat1":
				nDis++
				if len(samples) < 6 && o.Solver != "simplifier" {
					samples = append(samples, map[string]interface{}{"obligation": name, "kind": o.Kind, "solver": o.Solver, "ms": o.Ms, "at": o.Pos})
				}
			case "disagree":
				engineErrs = append(engineErrs, "solvers disagree on "+name)
			default:
				path, reproduced := replayObligation(replayDir, prop, o, r, e)
				line := fmt.Sprintf("VIOLATION property=%s replay=%s", prop, path)
				if !reproduced {
					line += " no-failing-input-found"
				}
				violLines = append(violLines, line)
			}
		}
	}
	var kfIDs []string
	for id := range kfSeen {
		kfIDs = append(kfIDs, id)
	}
	sort.Strings(kfIDs)
	for _, id := range kfIDs {
		if kfSeen[id] == "" {
			fmt.Printf("NOTE: known finding %s no longer reproduces (all its canaries discharge); mark it fixed in known_findings.json\n", id)
		} else {
			kfLines = append(kfLines, kfSeen[id])
		}
	}
	for k := range hasRet {
		if !reachableRet[k] {
			engineErrs = append(engineErrs, "vacuity: no return of "+trimPkg(k)+" is reachable under its precondition")
		}
	}
	// evidence
	asm, tb, abs := []string{}, []string{}, []string{}
	for a := range assumptions {
		asm = append(asm, a)
	}
	for a := range trusted {
		tb = append(tb, a)
	}
	for a := range abstracted {
		abs = append(abs, a)
	}
	sort.Strings(asm)
	sort.Strings(tb)
	sort.Strings(abs)
	tb = append([]string{"gvc VC generator (this repository, /verif/gvc)", "SMT solvers z3 5.1.0, z3 4.8.12, cvc5 1.0", "Go type checker (go/types) and go/packages loader"}, tb...)
	if len(samples) == 0 && len(obls) > 0 {
		samples = append(samples, obls[0])
	}
	ev := map[string]interface{}{
		"property_id": prop,
		"tier":        tier,
		"seed":        seedFromEnv(),
		"level":       "proof",
		"coverage": map[string]interface{}{
			"obligations":        nObl,
			"discharged":         nDis,
			"checker_cmd":        fmt.Sprintf("bin/gvc check %s %s", prop, tier),
			"trusted_base":       tb,
			"units":              units,
			"per_obligation":     obls,
			"bounded":            nBounded,
			"undecided":          undecided,
			"abstracted_callees": abs,
			"known_findings":     kfLines,
			"solver_ms_total":    solverMs,
			"cover_queries":      nCover,
			"cover_reachable":    nCovered,
			"unreachable_returns": unreachable,
			"samples":            samples,
		},
		"assumptions": asm,
		"wall_s":      time.Since(t0).Seconds(),
		"violations":  len(violLines),
	}
	if tier == "thorough" {
		// must-fail corpus: every seeded change recorded as caught for this
		// property has to fail an obligation again (overlay, /repo untouched)
		total, caught, rep := runSelftest(repo, verif, prop, 10*time.Second)
		cov := ev["coverage"].(map[string]interface{})
		cov["selftest_seeds"] = total
		cov["selftest_caught"] = caught
		cov["selftest_report"] = rep
		for _, l := range rep {
			fmt.Println("selftest:", l)
		}
		if caught != total {
			engineErrs = append(engineErrs, fmt.Sprintf("selftest: %d of %d seeded changes that used to be caught now survive", total-caught, total))
		}
		ev["wall_s"] = time.Since(t0).Seconds()
	}
	evPath := filepath.Join(verif, "evidence", prop+".json")
	os.MkdirAll(filepath.Dir(evPath), 0o755)
	b, _ := json.MarshalIndent(ev, "", " ")
	if err := os.WriteFile(evPath, b, 0o644); err != nil {
		fmt.Fprintln(os.Stderr, "gvc: cannot write evidence:", err)
		return 2
	}
	for _, u := range undecided {
		fmt.Println("UNDECIDED:", u)
	}
	for _, l := range kfLines {
		fmt.Println(l)
	}
	for _, l := range violLines {
		fmt.Println(l)
	}
	fmt.Printf("%s %s: %d units, %d obligations, %d discharged, %d bounded, %d violations, %.1fs\n",
		prop, tier, len(units), nObl, nDis, nBounded, len(violLines), time.Since(t0).Seconds())
	if len(engineErrs) > 0 {
		for _, er := range engineErrs {
			fmt.Fprintln(os.Stderr, "ENGINE-ERROR:", er)
		}
		if len(violLines) > 0 {
			// a failed obligation is assumed after it was reported, which can
			// make the rest of its unit unreachable (vacuity notes above): the
			// violation is the result of the run
			return 1
		}
		return 2
	}
	if nObl == 0 {
		fmt.Fprintln(os.Stderr, "ENGINE-ERROR: no obligations generated")
		return 2
	}
	if len(violLines) > 0 {
		return 1
	}
	return 0
}

func clauseProps(c *Contract, prop string) bool {
	for _, en := range c.Ensures {
		if propsContain(en.Props, prop) {
			return true
		}
	}
	return false
}
