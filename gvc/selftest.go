package main

// Self-test: the seeded / mutant corpus (DESIGN section 7). Each seed is a
// patch to /repo that breaks a property while the existing suite still
// passes. The patch is applied to temporary copies of the touched files and
// handed to go/packages as an overlay (the repository is never modified); the
// property's contracts are re-verified and at least one obligation must fail.

import (
	"encoding/json"
	"fmt"
	"os"
	"os/exec"
	"path/filepath"
	"sort"
	"strings"
	"time"
)

type seedMeta struct {
	ID        string `json:"id"`
	Property  string `json:"property"`
	Breaks    string `json:"breaks"`
	Needs     string `json:"needs"`
	Expected  string `json:"expected"` // "caught" | "missed"
	CaughtBy  string `json:"caught_by,omitempty"`
	WhyMissed string `json:"why_missed,omitempty"`
	Ran       string `json:"ran,omitempty"`
	// CheckProperty: the claimed property whose check catches the seed when
	// that is not the property the seed was written against
	CheckProperty string `json:"check_property,omitempty"`
}

func loadSeeds(verif, prop string) []seedMeta {
	var out []seedMeta
	dirs, _ := filepath.Glob(filepath.Join(verif, "seeded", "*"))
	sort.Strings(dirs)
	for _, d := range dirs {
		b, err := os.ReadFile(filepath.Join(d, "meta.json"))
		if err != nil {
			continue
		}
		var m seedMeta
		if json.Unmarshal(b, &m) != nil {
			continue
		}
		if m.ID == "" {
			m.ID = filepath.Base(d)
		}
		if m.CheckProperty == "" {
			m.CheckProperty = m.Property
		}
		if prop == "" || m.Property == prop || m.CheckProperty == prop {
			out = append(out, m)
		}
	}
	return out
}

// overlayFromPatch applies patch to temporary copies of the files it touches.
func overlayFromPatch(repo, patch string) (map[string][]byte, error) {
	data, err := os.ReadFile(patch)
	if err != nil {
		return nil, err
	}
	var files []string
	for _, l := range strings.Split(string(data), "\n") {
		if strings.HasPrefix(l, "+++ b/") {
			files = append(files, strings.TrimSpace(strings.TrimPrefix(l, "+++ b/")))
		}
	}
	if len(files) == 0 {
		return nil, fmt.Errorf("no files in patch")
	}
	tmp, err := os.MkdirTemp("", "gvc-seed")
	if err != nil {
		return nil, err
	}
	defer os.RemoveAll(tmp)
	for _, f := range files {
		src, err := os.ReadFile(filepath.Join(repo, f))
		if err != nil {
			return nil, err
		}
		dst := filepath.Join(tmp, f)
		os.MkdirAll(filepath.Dir(dst), 0o755)
		if err := os.WriteFile(dst, src, 0o644); err != nil {
			return nil, err
		}
	}
	cmd := exec.Command("patch", "-p1", "-s", "-d", tmp, "-i", patch)
	if out, err := cmd.CombinedOutput(); err != nil {
		return nil, fmt.Errorf("patch does not apply: %s", firstLines(string(out), 3))
	}
	ov := map[string][]byte{}
	for _, f := range files {
		b, err := os.ReadFile(filepath.Join(tmp, f))
		if err != nil {
			return nil, err
		}
		ov[filepath.Join(repo, f)] = b
	}
	return ov, nil
}

// runSelftest verifies every seed expected to be caught; returns the number
// of seeds that survived (none of the property's obligations failed).
func runSelftest(repo, verif, prop string, timeout time.Duration) (total, caught int, report []string) {
	for _, m := range loadSeeds(verif, prop) {
		if m.Expected != "caught" {
			continue
		}
		total++
		patch := filepath.Join(verif, "seeded", m.ID, "patch.diff")
		ov, err := overlayFromPatch(repo, patch)
		if err != nil {
			// a seed written against an older tree (a later fix touched the
			// same lines) says nothing about the checks: reported, not counted
			total--
			report = append(report, fmt.Sprintf("%s: STALE, not counted (%v); rebase seeded/%s/patch.diff", m.ID, err, m.ID))
			continue
		}
		e := newEngine(repo, verif)
		e.overlay = ov
		if err := e.loadContracts(); err != nil {
			report = append(report, fmt.Sprintf("%s: %v", m.ID, err))
			continue
		}
		cs := selectContracts(e, func(c *Contract) bool { return propsContain(c.Props, m.CheckProperty) || clauseProps(c, m.CheckProperty) })
		work, _ := os.MkdirTemp("", "gvc-selftest")
		d := &Discharger{workDir: work, timeout: timeout, sem: make(chan struct{}, 10)}
		results, err := verifyContracts(e, cs, d)
		os.RemoveAll(work)
		if err != nil {
			// a seed that no longer type-checks is not a survivor
			report = append(report, fmt.Sprintf("%s: load error: %v", m.ID, err))
			continue
		}
		var failed []string
		for _, r := range results {
			if len(r.Errors) > 0 && !r.Missing {
				failed = append(failed, "unit rejected: "+trimPkg(r.Contract.Short))
			}
			for _, o := range r.Obligs {
				if o.Cover || o.MustFail || !propsContain(o.Props, m.CheckProperty) {
					continue
				}
				if o.Status != "unsat" && o.Status != "unsat1" {
					failed = append(failed, trimPkg(o.Name))
				}
			}
		}
		if len(failed) > 0 {
			caught++
			report = append(report, fmt.Sprintf("%s: caught (%d obligations fail, e.g. %s)", m.ID, len(failed), failed[0]))
		} else {
			report = append(report, fmt.Sprintf("%s: SURVIVED (expected to be caught by %s)", m.ID, m.CaughtBy))
		}
	}
	return
}
