package main

// Inlining of callees without a contract (opt inline, coarse units only).
//
// A callee of the same package that has no contract is normally abstracted
// (DESIGN 2.5): unknown results, havoc of what was passed. With `opt inline`
// its body is executed in place instead, so that call-site rules (sinks),
// call records and typestate facts see what a helper does. This keeps the
// obligations of a unit meaningful when code is moved into (or out of) small
// helpers. Callees with loops, recursion, go/select or more than inlineMaxDepth
// nested levels stay abstracted; so does a callee whose paths cannot be merged
// back into one state.

import (
	"fmt"
	"os"
	"go/ast"
	"go/token"
	"go/types"
)

const inlineMaxDepth = 3

type inlineFrame struct {
	fn      *types.Func
	results []*types.Var
	rets    *[]*State
}

func (e *Engine) declOf(fn *types.Func) (*ast.FuncDecl, bool) {
	if e.declCache == nil {
		e.declCache = map[*types.Func]*ast.FuncDecl{}
	}
	if d, ok := e.declCache[fn]; ok {
		return d, d != nil
	}
	var found *ast.FuncDecl
	if fn.Pkg() != nil {
		if p := e.pkgs[fn.Pkg().Path()]; p != nil {
			for _, f := range p.Syntax {
				for _, d := range f.Decls {
					fd, ok := d.(*ast.FuncDecl)
					if !ok || fd.Body == nil {
						continue
					}
					if p.TypesInfo.Defs[fd.Name] == fn {
						found = fd
					}
				}
			}
		}
	}
	e.declCache[fn] = found
	return found, found != nil
}

// inlinable: a body the executor can run in place.
func inlinable(body *ast.BlockStmt) bool {
	ok := true
	ast.Inspect(body, func(n ast.Node) bool {
		switch s := n.(type) {
		case *ast.ForStmt, *ast.RangeStmt, *ast.GoStmt, *ast.SelectStmt, *ast.LabeledStmt:
			ok = false
		case *ast.BranchStmt:
			if s.Tok == token.GOTO {
				ok = false
			}
		case *ast.FuncLit:
			// literals inside helpers (callbacks, deferred recover): keep abstract
			ok = false
		}
		return ok
	})
	return ok
}

// tryInline executes fn's body at this call. Returns false (and leaves st and
// the obligation list untouched) when the callee is not inlinable.
func (x *Exec) tryInline(e *ast.CallExpr, st *State, fn *types.Func, recvVal Value, args []Value) (Value, bool) {
	if x.c == nil || x.c.Opts["inline"] != "true" || !x.coarse {
		return nil, false
	}
	if x.unit == nil || x.unit.Pkg == nil || fn.Pkg() == nil || fn.Pkg() != x.unit.Pkg.Types {
		return nil, false
	}
	if len(x.inlineStack) >= inlineMaxDepth {
		return nil, false
	}
	for _, f := range x.inlineStack {
		if f.fn == fn {
			return nil, false
		}
	}
	sig := fn.Type().(*types.Signature)
	if sig.Variadic() || sig.TypeParams().Len() > 0 {
		return nil, false
	}
	decl, ok := x.eng.declOf(fn)
	if !ok || !inlinable(decl.Body) {
		return nil, false
	}
	if sig.Params().Len() != len(args) {
		return nil, false
	}
	// snapshot for fallback
	nOb := len(x.obligs)
	siteCopy := map[string]int{}
	for k, v := range x.siteCount {
		siteCopy[k] = v
	}
	nErr := len(x.errs)
	work := st.clone()
	callerDefers := work.defers
	work.defers = nil
	if sig.Recv() != nil {
		rv := recvVal
		if rv == nil {
			return nil, false
		}
		if _, isSt := rv.(St); isSt {
			if _, isPtr := sig.Recv().Type().Underlying().(*types.Pointer); isPtr {
				// pointer-receiver method on an addressable struct value
				return nil, false
			}
		}
		if sc, isSc := rv.(Sc); isSc {
			if _, isStruct := sig.Recv().Type().Underlying().(*types.Struct); isStruct {
				rv = x.heapLoad(work, sig.Recv().Type(), sc.T, "")
			}
		}
		work.vars[sig.Recv()] = rv
	}
	for i := 0; i < sig.Params().Len(); i++ {
		work.vars[sig.Params().At(i)] = args[i]
	}
	var results []*types.Var
	for i := 0; i < sig.Results().Len(); i++ {
		r := sig.Results().At(i)
		results = append(results, r)
		work.vars[r] = x.zero(r.Type())
	}
	var rets []*State
	frame := &inlineFrame{fn: fn, results: results, rets: &rets}
	x.inlineStack = append(x.inlineStack, frame)
	savedResults, savedLit, savedLoopOrd := x.results, x.litReturn, x.loopOrd
	x.results, x.litReturn = results, nil
	savedSite := x.inlineSite
	if len(x.inlineStack) == 1 {
		x.inlineSite = e.Pos()
	}
	outs := x.stmts(decl.Body.List, []*State{work}, nil)
	for _, o := range outs {
		// fell off the end of the body (no result values)
		x.inlineReturn(o)
	}
	x.results, x.litReturn, x.loopOrd = savedResults, savedLit, savedLoopOrd
	x.inlineSite = savedSite
	x.inlineStack = x.inlineStack[:len(x.inlineStack)-1]
	fallback := func() (Value, bool) {
		x.obligs = x.obligs[:nOb]
		x.siteCount = siteCopy
		if len(x.errs) > nErr {
			x.errs = x.errs[:nErr]
		}
		return nil, false
	}
	if len(x.errs) > nErr {
		return fallback()
	}
	var live []*State
	for _, r := range rets {
		if !r.dead() {
			live = append(live, r)
		}
	}
	if len(live) == 0 {
		// every path of the callee ends in a contradiction with what is known
		st.add(False)
		x.abstr["inlined: "+funcKey(fn)] = true
		return x.freshResult(st, x.info.TypeOf(e)), true
	}
	merged := x.mergeMany(live)
	if len(merged) != 1 {
		return fallback()
	}
	m := merged[0]
	var res Value
	switch len(results) {
	case 0:
		res = Tu{}
	case 1:
		res = m.vars[results[0]]
	default:
		tu := Tu{}
		for _, r := range results {
			tu.Vs = append(tu.Vs, m.vars[r])
		}
		res = tu
	}
	// the callee's locals go out of scope
	for v := range m.vars {
		if v.Pos() >= decl.Pos() && v.Pos() <= decl.End() {
			delete(m.vars, v)
		}
	}
	m.defers = callerDefers
	*st = *m
	x.abstr["inlined: "+funcKey(fn)] = true
	return res, true
}

// inlineReturn ends one path of an inlined callee: its own defers run, the
// state is collected.
func (x *Exec) inlineReturn(st *State) {
	f := x.inlineStack[len(x.inlineStack)-1]
	states := []*State{st}
	if len(st.defers) > 0 {
		ds := st.defers
		st.defers = nil
		for i := len(ds) - 1; i >= 0; i-- {
			var next []*State
			for _, s := range states {
				next = append(next, ds[i].run(s)...)
			}
			states = next
		}
	}
	*f.rets = append(*f.rets, states...)
}

// inlineClosure executes a call of a local function literal in place. Returns
// false (state and obligations untouched) when the outcome cannot be merged
// into one state or the literal has more than one result.
func (x *Exec) inlineClosure(e *ast.CallExpr, st *State, lit *ast.FuncLit, args []Value) (Value, bool) {
	sig, _ := x.info.TypeOf(lit).(*types.Signature)
	if sig == nil || sig.Variadic() || sig.Params().Len() != len(args) || sig.Results().Len() > 1 {
		return nil, false
	}
	if len(x.inlineStack) >= inlineMaxDepth {
		return nil, false
	}
	nOb, nErr := len(x.obligs), len(x.errs)
	siteCopy := map[string]int{}
	for k, v := range x.siteCount {
		siteCopy[k] = v
	}
	work := st.clone()
	callerDefers := work.defers
	work.defers = nil
	for i := 0; i < sig.Params().Len(); i++ {
		work.vars[sig.Params().At(i)] = args[i]
	}
	var rets []*State
	savedLit, savedInl := x.litReturn, x.inlineStack
	x.litReturn = &rets
	x.inlineStack = nil // returns inside the literal end the literal, not an enclosing inlined helper
	outs := x.stmts(lit.Body.List, []*State{work}, nil)
	x.litReturn, x.inlineStack = savedLit, savedInl
	fallback := func() (Value, bool) {
		if os.Getenv("GVC_DEBUG") != "" {
			fmt.Fprintf(os.Stderr, "inlineClosure fallback at %s: errs=%v\n", x.src(e), x.errs[nErr:])
		}
		x.obligs = x.obligs[:nOb]
		x.siteCount = siteCopy
		if len(x.errs) > nErr {
			x.errs = x.errs[:nErr]
		}
		return nil, false
	}
	if len(x.errs) > nErr {
		return fallback()
	}
	var live []*State
	for _, r := range append(outs, rets...) {
		if !r.dead() {
			if len(r.defers) > 0 {
				return fallback()
			}
			live = append(live, r)
		}
	}
	if len(live) == 0 {
		st.add(False)
		return x.freshResult(st, x.info.TypeOf(e)), true
	}
	merged := x.mergeMany(live)
	if len(merged) != 1 {
		return fallback()
	}
	m := merged[0]
	var res Value = Tu{}
	if sig.Results().Len() == 1 {
		r, ok := m.ghosts["litresult"]
		if !ok {
			return fallback()
		}
		res = r
	}
	delete(m.ghosts, "litresult")
	for v := range m.vars {
		if v.Pos() >= lit.Pos() && v.Pos() <= lit.End() {
			delete(m.vars, v)
		}
	}
	m.defers = callerDefers
	*st = *m
	return res, true
}
