package main

// Symbolic executor over the typed AST: statements.

import (
	"bytes"
	"fmt"
	"go/ast"
	"go/constant"
	"go/printer"
	"go/token"
	"go/types"
	"sort"
	"strings"

	"golang.org/x/tools/go/packages"
)

type Obligation struct {
	Unit     string
	Name     string
	Kind     string
	Label    string
	Assume   []*Term
	Goal     *Term
	Props    []string
	Bounded  int    // >0: depends on a bounded unrolling
	MustFail bool   // KF canary / cover query: expected sat
	Cover    bool   // vacuity cover query (expected sat, not an obligation)
	KF       string // known-finding id for canaries
	Pos      string
	Inputs   []ModelInput // what to ask the solver for on sat
	Imprec   []string
	// results
	Status string // unsat | sat | unknown | timeout | error
	Solver string
	Ms     int64
	Model  map[string]string
	Output string
	SMT    string
}

type ModelInput struct {
	Name string // Go-level name (parameter, receiver field, ...)
	Kind string // "int", "bool", "bytes", "string"
	Len  *Term
	Off  *Term
	Arr  *Term
	T    *Term
	Nil  *Term
	Type string
	GoT  types.Type
}

type ctl struct {
	label     string
	isLoop    bool
	breaks    *[]*State
	continues *[]*State
}

type Unit struct {
	Key   string
	Short string
	Pkg   *packages.Package
	Decl  *ast.FuncDecl
	Lit   *ast.FuncLit
	Fn    *types.Func
	C     *Contract
}

type Exec struct {
	eng       *Engine
	ar        *Arith
	unit      *Unit
	pkg       *packages.Package
	info      *types.Info
	c         *Contract
	freshN    int
	layouts   map[string][]comp
	obligs    []*Obligation
	entry     *State
	sig       *types.Signature
	recv      *types.Var
	params    []*types.Var
	results   []*types.Var
	resNames  []string
	siteCount map[string]int
	loopOrd   map[ast.Stmt]int
	errIDs    map[string]int64
	errs      []string // unit-level errors (outside subset)
	abstr     map[string]bool
	assumes   map[string]bool
	bounded   int
	coarse    bool
	regionN   int
	pathDepth int
	inputs    []ModelInput
	specDecls map[string]*FuncDecl
	epochN    int
	curProps  []string
	allocd    []*Term
	entryPtrs []*Term
	arrRegions    map[*types.Var]*Region
	arrSnaps      map[*types.Var]*Region
	usedContracts map[string]*Contract
	ghostTypes    map[string]types.Type
	curPos        token.Pos
	litReturn     *[]*State
	nReturns      int
	replay        *ReplayInfo
	loopHead      *State
	scopePos      token.Pos
	fieldHolder   *cbind
	inLoopHavoc   bool
	litOrd        map[*ast.FuncLit]int
	written       map[string]bool // heap keys written on objects the caller can see
	inlineStack   []*inlineFrame
	elemCells     map[*Term]bool // cells standing for &s[i] (read-only views)
	escaped       map[*types.Var]bool // locals whose address went to an opaque pointer: unknown after every call
	addrTakenCache map[*types.Var]bool
	inlineSite    token.Pos // position of the outermost inlined call (scope of sink clauses)
	factSink      *State // receives type-invariant facts discovered while evaluating contract expressions
}

func (x *Exec) fail(pos token.Pos, format string, args ...interface{}) {
	msg := fmt.Sprintf(format, args...)
	if pos.IsValid() && x.pkg != nil {
		p := x.pkg.Fset.Position(pos)
		msg = fmt.Sprintf("%s:%d: %s", shortFile(p.Filename), p.Line, msg)
	}
	for _, e := range x.errs {
		if e == msg {
			return
		}
	}
	x.errs = append(x.errs, msg)
}

func shortFile(f string) string {
	if i := strings.Index(f, "/repo/"); i >= 0 {
		return f[i+6:]
	}
	return f
}

func (x *Exec) src(n ast.Node) string {
	var buf bytes.Buffer
	printer.Fprint(&buf, x.pkg.Fset, n)
	s := strings.Join(strings.Fields(buf.String()), " ")
	if len(s) > 48 {
		s = s[:48] + "~"
	}
	return s
}

func (x *Exec) site(kind string, n ast.Node) string {
	base := kind
	if n != nil {
		base = kind + "[" + x.src(n) + "]"
	}
	x.siteCount[base]++
	return fmt.Sprintf("%s#%d", base, x.siteCount[base])
}

// oblige records a proof obligation under the current path.
func (x *Exec) oblige(st *State, kind, name, label string, goal *Term, pos token.Pos) *Obligation {
	if goal.IsTrue() {
		// still counted: trivially discharged obligations are recorded so that
		// a later change making them non-trivial keeps the same name.
	}
	assume := make([]*Term, 0, len(st.assume))
	seenA := map[string]bool{}
	keepAlloc := len(x.allocd) > 0 || mentionsAllocFrontier(goal)
	goalArrs := map[string]bool{}
	arraySyms(goal, goalArrs)
	for _, a := range st.assume {
		if seenA[a.String()] {
			continue
		}
		seenA[a.String()] = true
		if isTypeFactForall(a) {
			// a quantified type fact about arrays the goal never mentions cannot
			// take part in its proof: leave it out (smaller, steadier queries)
			fa := map[string]bool{}
			arraySyms(a, fa)
			relevant := true
			for s := range fa {
				if !goalArrs[s] {
					relevant = false
					break
				}
			}
			if !relevant {
				continue
			}
		}
		if !keepAlloc && mentionsAllocFrontier(a) {
			// allocation-frontier facts only matter once something was allocated
			a = dropAllocConjuncts(a)
			if a == nil {
				continue
			}
		}
		assume = append(assume, a)
	}
	o := &Obligation{Unit: x.unit.Key, Name: x.unit.Short + "." + name, Kind: kind, Label: label,
		Assume: assume, Goal: goal, Props: x.curProps, Bounded: x.bounded,
		Inputs: x.inputs, Imprec: append([]string(nil), st.imprec...)}
	if pos.IsValid() && x.pkg != nil {
		p := x.pkg.Fset.Position(pos)
		o.Pos = fmt.Sprintf("%s:%d", shortFile(p.Filename), p.Line)
	}
	if x.coarse && !(x.c != nil && x.c.Opts["safety"] == "true") {
		// coarse units track a few ghost facts through mostly abstracted code:
		// their machine-level safety conditions are not claimed
		switch kind {
		case "ovf", "nil", "idx", "slice", "div", "shift", "makelen", "alloc", "panic":
			x.assumes["coarse unit "+x.unit.Short+": run-time safety conditions (bounds, nil, overflow) are assumed, not proved"] = true
			return o
		}
	}
	x.obligs = append(x.obligs, o)
	return o
}

func (x *Exec) newRegion(name string) *Region {
	x.regionN++
	return &Region{Name: name, ID: x.regionN}
}

// ---- statements

func (x *Exec) stmts(list []ast.Stmt, in []*State, cs []*ctl) []*State {
	cur := in
	for _, s := range list {
		var next []*State
		for _, st := range cur {
			next = append(next, x.stmt(s, st, cs)...)
		}
		cur = next
		if len(cur) == 0 {
			break
		}
		if len(cur) > 64 {
			x.fail(s.Pos(), "path explosion (%d live states)", len(cur))
			return nil
		}
	}
	return cur
}

func (x *Exec) stmt(s ast.Stmt, st *State, cs []*ctl) []*State {
	switch s := s.(type) {
	case *ast.BlockStmt:
		return x.stmts(s.List, []*State{st}, cs)
	case *ast.ExprStmt:
		x.expr(s.X, st)
		return x.live(st)
	case *ast.DeclStmt:
		gd, ok := s.Decl.(*ast.GenDecl)
		if !ok {
			return []*State{st}
		}
		for _, sp := range gd.Specs {
			vs, ok := sp.(*ast.ValueSpec)
			if !ok {
				continue
			}
			if len(vs.Values) == 0 {
				for _, n := range vs.Names {
					if v, ok := x.info.Defs[n].(*types.Var); ok {
						x.setVar(st, v, x.zeroLocal(st, v.Type(), n.Name))
						if _, isStruct := v.Type().Underlying().(*types.Struct); isStruct && x.addressTaken(v) {
							// `var b T` whose address is taken later (&b, or a
							// pointer-receiver method on b): the variable is an
							// object from its declaration on
							p := x.alloc(st, "addr_"+v.Name())
							x.heapStoreStruct(st, v.Type(), p, st.vars[v])
							st.vars[v] = Bx{p}
							x.zeroGhosts(st, p)
						}
					}
				}
				continue
			}
			if len(vs.Values) == len(vs.Names) {
				for i, n := range vs.Names {
					val := x.exprT(vs.Values[i], st, x.typeOfDef(n))
					if v, ok := x.info.Defs[n].(*types.Var); ok {
						x.setVar(st, v, x.convertTo(st, val, x.info.TypeOf(vs.Values[i]), v.Type()))
					}
				}
				continue
			}
			// multi-value from a call
			val := x.expr(vs.Values[0], st)
			tu, ok := val.(Tu)
			for i, n := range vs.Names {
				if v, okv := x.info.Defs[n].(*types.Var); okv {
					if ok && i < len(tu.Vs) {
						x.setVar(st, v, tu.Vs[i])
					} else {
						x.setVar(st, v, x.fresh(st, v.Type(), n.Name))
					}
				}
			}
		}
		return x.live(st)
	case *ast.AssignStmt:
		// a function literal stored in a field runs later, at an arbitrary
		// time: when the unit's contract speaks about it (`lit N ...`), its
		// body is verified from a state whose heap is unknown (captured
		// locals keep their values)
		for i, r := range s.Rhs {
			lit, ok := unparen(r).(*ast.FuncLit)
			if !ok || i >= len(s.Lhs) || !x.coarse || x.c == nil {
				continue
			}
			if _, isSel := unparen(s.Lhs[i]).(*ast.SelectorExpr); !isSel {
				continue
			}
			ord := x.litOrd[lit]
			if len(x.c.LitEnsures[ord])+len(x.c.LitInvariants[ord])+len(x.c.LitRequires[ord])+len(x.c.LitOkInvariants[ord]) == 0 {
				continue
			}
			s2 := st.clone()
			x.havocHeapAll(s2)
			x.checkLit(lit, s2, false)
		}
		x.assign(s, st)
		return x.live(st)
	case *ast.IncDecStmt:
		op := token.ADD
		if s.Tok == token.DEC {
			op = token.SUB
		}
		t := x.info.TypeOf(s.X)
		cur := x.expr(s.X, st)
		ii, ok := intInfoOf(t)
		if !ok {
			x.fail(s.Pos(), "inc/dec on non-integer")
			return nil
		}
		one := x.ar.constInt(bigOne, ii)
		r := x.arith(st, op, x.scalar(cur), one, ii, ii, s)
		x.store(s.X, Sc{r}, st)
		return x.live(st)
	case *ast.IfStmt:
		return x.ifStmt(s, st, cs)
	case *ast.SwitchStmt:
		return x.switchStmt(s, st, cs, "")
	case *ast.ForStmt:
		return x.forStmt(s, st, cs, "")
	case *ast.RangeStmt:
		return x.rangeStmt(s, st, cs, "")
	case *ast.LabeledStmt:
		switch in := s.Stmt.(type) {
		case *ast.ForStmt:
			return x.forStmt(in, st, cs, s.Label.Name)
		case *ast.RangeStmt:
			return x.rangeStmt(in, st, cs, s.Label.Name)
		case *ast.SwitchStmt:
			return x.switchStmt(in, st, cs, s.Label.Name)
		}
		return x.stmt(s.Stmt, st, cs)
	case *ast.BranchStmt:
		switch s.Tok {
		case token.BREAK:
			for i := len(cs) - 1; i >= 0; i-- {
				if (s.Label == nil && cs[i].breaks != nil) || (s.Label != nil && cs[i].label == s.Label.Name) {
					*cs[i].breaks = append(*cs[i].breaks, st)
					return nil
				}
			}
		case token.CONTINUE:
			for i := len(cs) - 1; i >= 0; i-- {
				if cs[i].isLoop && (s.Label == nil || cs[i].label == s.Label.Name) {
					*cs[i].continues = append(*cs[i].continues, st)
					return nil
				}
			}
		}
		x.fail(s.Pos(), "unsupported branch statement %s", s.Tok)
		return nil
	case *ast.ReturnStmt:
		x.returnStmt(s, st)
		return nil
	case *ast.DeferStmt:
		x.deferStmt(s, st)
		return []*State{st}
	case *ast.EmptyStmt:
		return []*State{st}
	case *ast.GoStmt:
		// `go func() {...}()`: the literal is verified as a unit of its own from
		// the state at the go statement (`lit N` clauses, loop invariants by
		// ordinal); for the spawning function whatever the goroutine assigns is
		// unknown from here on. Interleavings with the spawner are not modelled
		// (listed as an assumption).
		if lit, ok := s.Call.Fun.(*ast.FuncLit); ok && len(s.Call.Args) == 0 {
			x.assumes["goroutine "+x.site("go", s)+" is verified sequentially from the state at its go statement; the spawner does not touch what it uses afterwards"] = true
			x.checkLit(lit, st, true)
			x.havoc(st, x.modifiedIn(lit.Body))
			return []*State{st}
		}
		x.fail(s.Pos(), "outside subset: %T", s)
		return nil
	case *ast.SendStmt:
		if x.coarse {
			// coarse units: the operands are evaluated, the send itself is not
			// modelled (channels carry no facts; blocking is not considered)
			x.expr(s.Chan, st)
			x.expr(s.Value, st)
			x.abstr["channel send "+x.src(s)+": not modelled"] = true
			return []*State{st}
		}
		x.fail(s.Pos(), "outside subset: %T", s)
		return nil
	case *ast.SelectStmt:
		x.fail(s.Pos(), "outside subset: %T", s)
		return nil
	case *ast.TypeSwitchStmt:
		return x.typeSwitch(s, st, cs)
	}
	x.fail(s.Pos(), "unsupported statement %T", s)
	return nil
}

var bigOne = newBig(1)

// live drops a state whose path is known dead (panic call etc.).
func (x *Exec) live(st *State) []*State {
	if st.dead() {
		return nil
	}
	return []*State{st}
}

func (s *State) dead() bool {
	for _, a := range s.assume {
		if a.IsFalse() {
			return true
		}
	}
	return false
}

func (x *Exec) typeOfDef(n *ast.Ident) types.Type {
	if o := x.info.Defs[n]; o != nil {
		return o.Type()
	}
	return nil
}

func (x *Exec) setVar(st *State, v *types.Var, val Value) {
	st.vars[v] = val
}

// zeroLocal: zero value; byte slices/arrays declared locally get their own region when they are arrays sliced later.
// addressTaken: the unit takes the address of local v somewhere (explicitly,
// or implicitly by calling a pointer-receiver method on it).
func (x *Exec) addressTaken(v *types.Var) bool {
	if x.unit == nil || x.unit.Decl == nil {
		return false
	}
	if x.addrTakenCache == nil {
		x.addrTakenCache = map[*types.Var]bool{}
		ast.Inspect(x.unit.Decl, func(n ast.Node) bool {
			switch e := n.(type) {
			case *ast.UnaryExpr:
				if e.Op == token.AND {
					if id, ok := unparen(e.X).(*ast.Ident); ok {
						if o, ok := x.info.ObjectOf(id).(*types.Var); ok {
							x.addrTakenCache[o] = true
						}
					}
				}
			case *ast.CallExpr:
				if sel, ok := unparen(e.Fun).(*ast.SelectorExpr); ok {
					if s := x.info.Selections[sel]; s != nil && s.Kind() == types.MethodVal && len(s.Index()) == 1 {
						if fn, ok := s.Obj().(*types.Func); ok {
							if sig, ok := fn.Type().(*types.Signature); ok && sig.Recv() != nil {
								if _, isPtr := sig.Recv().Type().Underlying().(*types.Pointer); isPtr {
									if id, ok := unparen(sel.X).(*ast.Ident); ok {
										if o, ok := x.info.ObjectOf(id).(*types.Var); ok {
											if _, isStruct := o.Type().Underlying().(*types.Struct); isStruct {
												x.addrTakenCache[o] = true
											}
										}
									}
								}
							}
						}
					}
				}
			}
			return true
		})
	}
	return x.addrTakenCache[v]
}

// zeroGhosts: the scalar ghost fields of a zero-valued object start at zero /
// false (an empty strings.Builder has lexed nothing, an empty buffer holds
// nothing); ghost arrays stay unconstrained.
func (x *Exec) zeroGhosts(st *State, p *Term) {
	for _, g := range x.eng.cs.Ghost {
		srt := x.ghostSort(g.Type)
		var z *Term
		switch {
		case srt.Kind == SBool:
			z = False
		case srt.Eq(x.ar.mathSort()):
			z = x.ar.mathC(newBig(0))
		default:
			continue
		}
		key := "ghost:" + g.Name
		arr := x.heapGet(st, key, ArrSort(IntSort, srt))
		st.heap[key] = Store(arr, p, z)
	}
}

func (x *Exec) zeroLocal(st *State, t types.Type, name string) Value {
	return x.zero(t)
}

func (x *Exec) ifStmt(s *ast.IfStmt, st *State, cs []*ctl) []*State {
	if s.Init != nil {
		r := x.stmt(s.Init, st, cs)
		if len(r) != 1 {
			return nil
		}
		st = r[0]
	}
	if x.c != nil && x.c.Opts["splitor"] != "" {
		// `opt splitor`: if a || b {S} else {T} runs as if a {S} else if b {S}
		// else {T} (Go's short-circuit order), one path per disjunct
		var ds []ast.Expr
		var flat func(e ast.Expr)
		flat = func(e ast.Expr) {
			if b, ok := unparen(e).(*ast.BinaryExpr); ok && b.Op == token.LOR {
				flat(b.X)
				flat(b.Y)
				return
			}
			ds = append(ds, e)
		}
		flat(s.Cond)
		if len(ds) > 1 {
			var out []*State
			cur := st
			for _, d := range ds {
				c := x.cond(d, cur)
				if cur.dead() {
					return out
				}
				if !c.IsFalse() {
					sa := cur.clone()
					sa.add(c)
					out = append(out, x.stmt(s.Body, sa, cs)...)
				}
				if c.IsTrue() {
					return out
				}
				cur = cur.clone()
				cur.add(Not(c))
			}
			if s.Else != nil {
				return append(out, x.stmt(s.Else, cur, cs)...)
			}
			return append(out, cur)
		}
	}
	c := x.cond(s.Cond, st)
	if st.dead() {
		return nil
	}
	var outA, outB []*State
	if !c.IsFalse() {
		sa := st.clone()
		sa.add(c)
		outA = x.stmt(s.Body, sa, cs)
	}
	if !c.IsTrue() {
		sb := st.clone()
		sb.add(Not(c))
		if s.Else != nil {
			outB = x.stmt(s.Else, sb, cs)
		} else {
			outB = []*State{sb}
		}
	}
	if len(outA) == 1 && len(outB) == 1 {
		if m, ok := x.mergeStates(c, outA[0], outB[0]); ok {
			return []*State{m}
		}
	}
	return append(outA, outB...)
}

func (x *Exec) switchStmt(s *ast.SwitchStmt, st *State, cs []*ctl, label string) []*State {
	if s.Init != nil {
		r := x.stmt(s.Init, st, cs)
		if len(r) != 1 {
			return nil
		}
		st = r[0]
	}
	var tag Value
	var tagT types.Type
	if s.Tag != nil {
		tag = x.expr(s.Tag, st)
		tagT = x.info.TypeOf(s.Tag)
	}
	var breaks []*State
	frame := &ctl{label: label, breaks: &breaks}
	ncs := append(append([]*ctl(nil), cs...), frame)
	var outs []*State
	rest := st // state in which no earlier case matched
	// pass 1: the state in which each clause is selected (nil: never)
	entry := make([]*State, len(s.Body.List))
	defltIdx := -1
	for ci, cl := range s.Body.List {
		cc := cl.(*ast.CaseClause)
		if cc.List == nil {
			defltIdx = ci
			continue
		}
		if rest == nil {
			continue
		}
		var alts []*Term
		for _, e := range cc.List {
			if s.Tag != nil {
				v := x.exprT(e, rest, tagT)
				alts = append(alts, x.valuesEqual(rest, tagT, tag, x.convertTo(rest, v, x.info.TypeOf(e), tagT)))
			} else {
				alts = append(alts, x.cond(e, rest))
			}
		}
		c := Or(alts...)
		if !c.IsFalse() {
			sa := rest.clone()
			sa.add(c)
			entry[ci] = sa
		}
		if c.IsTrue() {
			rest = nil
			continue
		}
		rest = rest.clone()
		rest.add(Not(c))
	}
	if rest != nil {
		if defltIdx >= 0 {
			entry[defltIdx] = rest
		} else {
			outs = append(outs, rest)
		}
	}
	// pass 2: bodies in source order; a body ending in fallthrough continues
	// with the next clause's body
	var falling []*State
	for ci, cl := range s.Body.List {
		cc := cl.(*ast.CaseClause)
		var in []*State
		if entry[ci] != nil {
			in = append(in, entry[ci])
		}
		in = append(in, falling...)
		falling = nil
		if len(in) == 0 {
			continue
		}
		body := cc.Body
		falls := false
		if n := len(body); n > 0 {
			if br, ok := body[n-1].(*ast.BranchStmt); ok && br.Tok == token.FALLTHROUGH {
				falls = true
				body = body[:n-1]
			}
		}
		in = x.mergeMany(in)
		res := x.stmts(body, in, ncs)
		if falls {
			falling = res
		} else {
			outs = append(outs, res...)
		}
	}
	outs = append(outs, breaks...)
	return x.mergeMany(outs)
}

var dyntypeFn = &FuncDecl{Name: "dyntype", Params: []*Sort{IntSort}, Ret: IntSort}

// typeID: a stable positive identity of a concrete type (dynamic type tags).
func typeID(t types.Type) *Term {
	return funcID("type:" + types.TypeString(t, nil))
}

// typeSwitch: the dynamic type of an interface value is dyntype(id), an
// uninterpreted function of the value's identity; a case with one concrete
// type binds the same identity at that type (an interface holding a pointer
// is that pointer). Cases naming interface types are undetermined.
func (x *Exec) typeSwitch(s *ast.TypeSwitchStmt, st *State, cs []*ctl) []*State {
	if s.Init != nil {
		r := x.stmt(s.Init, st, cs)
		if len(r) != 1 {
			return nil
		}
		st = r[0]
	}
	var subj ast.Expr
	switch a := s.Assign.(type) {
	case *ast.AssignStmt:
		if len(a.Rhs) == 1 {
			if ta, ok := unparen(a.Rhs[0]).(*ast.TypeAssertExpr); ok {
				subj = ta.X
			}
		}
	case *ast.ExprStmt:
		if ta, ok := unparen(a.X).(*ast.TypeAssertExpr); ok {
			subj = ta.X
		}
	}
	if subj == nil {
		x.fail(s.Pos(), "unsupported type switch form")
		return nil
	}
	v := x.expr(subj, st)
	sc, ok := v.(Sc)
	if !ok || sc.T.S.Kind != SInt {
		x.fail(s.Pos(), "type switch on an unmodelled value")
		return nil
	}
	dt := App(dyntypeFn, sc.T)
	var breaks []*State
	frame := &ctl{breaks: &breaks}
	ncs := append(append([]*ctl(nil), cs...), frame)
	var outs []*State
	rest := st
	var deflt *ast.CaseClause
	bind := func(cc *ast.CaseClause, sa *State) {
		o, _ := x.info.Implicits[cc].(*types.Var)
		if o == nil {
			return
		}
		val := Value(sc)
		if len(cc.List) == 1 {
			if _, isNil := x.info.TypeOf(cc.List[0]).(*types.Basic); !isNil {
				t := o.Type()
				if s2, ok := x.scalarSort(t); !ok || !s2.Eq(sc.T.S) {
					// a non-pointer concrete type: its value is not modelled
					val = x.fresh(sa, t, o.Name())
					x.abstr["type switch binds a value of type "+types.TypeString(t, nil)+" (unmodelled)"] = true
				}
			}
		}
		sa.vars[o] = val
	}
	for _, cl := range s.Body.List {
		cc := cl.(*ast.CaseClause)
		if cc.List == nil {
			deflt = cc
			continue
		}
		var alts []*Term
		for _, e := range cc.List {
			t := x.info.TypeOf(e)
			if b, ok := t.(*types.Basic); ok && b.Kind() == types.UntypedNil {
				alts = append(alts, Eq(sc.T, IntC(0)))
				continue
			}
			if types.IsInterface(t) {
				alts = append(alts, x.freshTerm("tyis", BoolSort))
				x.abstr["type switch case on interface type "+types.TypeString(t, nil)] = true
				continue
			}
			alts = append(alts, And(Neq(sc.T, IntC(0)), Eq(dt, typeID(t))))
		}
		c := Or(alts...)
		sa := rest.clone()
		sa.add(c)
		bind(cc, sa)
		outs = append(outs, x.caseBody(cc, sa, ncs)...)
		rest = rest.clone()
		rest.add(Not(c))
	}
	if deflt != nil {
		bind(deflt, rest)
		outs = append(outs, x.caseBody(deflt, rest, ncs)...)
	} else {
		outs = append(outs, rest)
	}
	outs = append(outs, breaks...)
	return x.mergeMany(outs)
}

func (x *Exec) caseBody(cc *ast.CaseClause, st *State, cs []*ctl) []*State {
	for _, b := range cc.Body {
		if br, ok := b.(*ast.BranchStmt); ok && br.Tok == token.FALLTHROUGH {
			x.fail(br.Pos(), "outside subset: fallthrough")
			return nil
		}
	}
	return x.stmts(cc.Body, []*State{st}, cs)
}

// mergeMany joins states pairwise using fresh selectors where possible.
func (x *Exec) mergeMany(ss []*State) []*State {
	if len(ss) <= 1 {
		return ss
	}
	if x.c != nil && x.c.Opts["nomerge"] == "true" {
		return ss
	}
	cur := ss[0]
	var out []*State
	for _, s := range ss[1:] {
		sel := x.freshTerm("sel", BoolSort)
		if m, ok := x.mergeStates(sel, cur, s); ok {
			cur = m
		} else {
			out = append(out, s)
		}
	}
	return append([]*State{cur}, out...)
}

// ---- loops

func (x *Exec) loopSpec(s ast.Stmt) (*LoopSpec, int) {
	ord := x.loopOrd[s]
	if x.c != nil {
		if ls, ok := x.c.Loops[ord]; ok {
			return ls, ord
		}
	}
	return nil, ord
}

func (x *Exec) forStmt(s *ast.ForStmt, st *State, cs []*ctl, label string) []*State {
	if s.Init != nil {
		r := x.stmt(s.Init, st, cs)
		if len(r) != 1 {
			return nil
		}
		st = r[0]
	}
	spec, ord := x.loopSpec(s)
	if x.coarse && (spec == nil || (len(spec.Invariants) == 0 && spec.Unroll == 0)) {
		spec = trivialLoopSpec(spec)
	}
	if spec == nil || (len(spec.Invariants) == 0 && spec.Unroll == 0) {
		x.fail(s.Pos(), "loop %d has no invariant or unroll directive", ord)
		return nil
	}
	body := func(sb *State, ncs []*ctl) []*State { return x.stmt(s.Body, sb, ncs) }
	post := func(sp *State, ncs []*ctl) []*State {
		if s.Post == nil {
			return []*State{sp}
		}
		return x.stmt(s.Post, sp, ncs)
	}
	condf := func(sc *State) *Term {
		if s.Cond == nil {
			return True
		}
		return x.cond(s.Cond, sc)
	}
	if spec.Unroll != 0 {
		return x.unrollLoop(s, ord, spec, st, cs, label, condf, body, post)
	}
	mods := x.modifiedIn(s.Body, s.Post, s.Cond)
	return x.invariantLoop(s, ord, spec, st, cs, label, mods, condf, body, post, nil)
}

// unrollLoop unrolls K times; when Unroll is "complete" (-1) or the unwinding
// assertion is requested, proves no further iteration is reachable.
func (x *Exec) unrollLoop(s ast.Stmt, ord int, spec *LoopSpec, st *State, cs []*ctl, label string,
	condf func(*State) *Term, body func(*State, []*ctl) []*State, post func(*State, []*ctl) []*State) []*State {
	k := spec.Unroll
	complete := true
	if k < 0 {
		k = 64
	}
	if v, ok := x.c.Opts[fmt.Sprintf("loop%d.bounded", ord)]; ok && v == "true" {
		complete = false
	}
	var exits []*State
	cur := []*State{st}
	for it := 0; it <= k && len(cur) > 0; it++ {
		var next []*State
		for _, sc := range cur {
			c := condf(sc)
			if !c.IsTrue() {
				se := sc.clone()
				se.add(Not(c))
				exits = append(exits, se)
			}
			if c.IsFalse() {
				continue
			}
			sb := sc.clone()
			sb.add(c)
			if it == k {
				if complete {
					x.oblige(sb, "unwind", fmt.Sprintf("loop%d.unwind", ord), "", False, s.Pos())
				} else {
					old := x.bounded
					_ = old
				}
				continue
			}
			var breaks, conts []*State
			frame := &ctl{label: label, isLoop: true, breaks: &breaks, continues: &conts}
			ncs := append(append([]*ctl(nil), cs...), frame)
			outs := body(sb, ncs)
			outs = append(outs, conts...)
			outs = x.mergeMany(outs)
			for _, o := range outs {
				next = append(next, post(o, ncs)...)
			}
			exits = append(exits, breaks...)
		}
		cur = x.mergeMany(next)
		if len(cur) > 8 {
			x.fail(s.Pos(), "loop %d: path explosion while unrolling", ord)
			return nil
		}
	}
	if !complete {
		x.bounded = spec.Unroll
	}
	return x.mergeMany(exits)
}

type loopVarBinding struct {
	name string
	v    Value
}

// invariantLoop cuts the loop with its invariant.
func (x *Exec) invariantLoop(s ast.Stmt, ord int, spec *LoopSpec, st *State, cs []*ctl, label string, mods *modSet,
	condf func(*State) *Term, body func(*State, []*ctl) []*State, post func(*State, []*ctl) []*State,
	extraHavoc func(*State)) []*State {
	pfx := fmt.Sprintf("loop%d", ord)
	savedScope := x.scopePos
	switch l := s.(type) {
	case *ast.ForStmt:
		x.scopePos = l.Body.Lbrace + 1
	case *ast.RangeStmt:
		x.scopePos = l.Body.Lbrace + 1
	}
	defer func() { x.scopePos = savedScope }()
	// loop lets: evaluated in the pre-state
	for _, l := range spec.Lets {
		v, _ := x.cexpr(l.C.Expr, x.cctx(st, l.C))
		st.ghosts[l.Name] = x.nameLet(st, l.Name, v)
	}
	// 1. invariant holds on entry
	for _, inv := range spec.Invariants {
		g := x.cbool(inv.Expr, x.cctx(st, inv))
		x.obligeClause(st, "inv.init", pfx+".inv.init."+inv.Label, inv, g, s.Pos())
	}
	// 2. havoc
	h := st.clone()
	x.havoc(h, mods)
	if extraHavoc != nil {
		extraHavoc(h)
	}
	for _, inv := range spec.Invariants {
		x.assumeClause(h, inv, mods)
	}
	// variant at loop head
	var v0 *Term
	if spec.Decreases != nil {
		v0 = x.cint(spec.Decreases.Expr, x.cctx(h, spec.Decreases))
	}
	c := condf(h)
	var exits []*State
	if !c.IsTrue() {
		se := h.clone()
		se.add(Not(c))
		exits = append(exits, se)
	}
	if !c.IsFalse() {
		sb := h.clone()
		sb.add(c)
		if v0 != nil {
			x.oblige(sb, "dec", pfx+".dec.nonneg", "", x.mathGe0(v0), s.Pos())
		}
		var breaks, conts []*State
		frame := &ctl{label: label, isLoop: true, breaks: &breaks, continues: &conts}
		ncs := append(append([]*ctl(nil), cs...), frame)
		cov := x.oblige(sb, "cover", pfx+".cover.body", "", False, s.Pos())
		cov.Cover, cov.MustFail = true, true
		savedHead := x.loopHead
		headState := sb.clone()
		x.loopHead = headState
		outs := body(sb, ncs)
		outs = append(outs, conts...)
		var ends []*State
		for _, o := range outs {
			ends = append(ends, post(o, ncs)...)
		}
		x.loopHead = headState
		for ei, e := range ends {
			// one set of obligations per path through the body
			sfx := ""
			if len(ends) > 1 {
				sfx = fmt.Sprintf("~%d", ei+1)
			}
			for _, be := range spec.BodyEnsures {
				g := x.cbool(be.Expr, x.cctx(e, be))
				x.obligeClause(e, "step", pfx+".step."+be.Label+sfx, be, g, s.Pos())
			}
			for _, inv := range spec.Invariants {
				g := x.cbool(inv.Expr, x.cctx(e, inv))
				x.obligeClause(e, "inv.keep", pfx+".inv.keep."+inv.Label+sfx, inv, g, s.Pos())
			}
			if v0 != nil {
				v1 := x.cint(spec.Decreases.Expr, x.cctx(e, spec.Decreases))
				x.oblige(e, "dec", pfx+".dec.decr"+sfx, "", x.mathLt(v1, v0), s.Pos())
			}
		}
		exits = append(exits, breaks...)
		x.loopHead = savedHead
	}
	return x.mergeMany(exits)
}

func (x *Exec) mathGe0(t *Term) *Term {
	if x.ar.BV {
		return Not(BVCmp("bvslt", t, BVC64(0, t.S.W)))
	}
	return IGe(t, IntC(0))
}

func (x *Exec) mathLt(a, b *Term) *Term {
	if x.ar.BV {
		return BVCmp("bvslt", a, b)
	}
	return ILt(a, b)
}

func (x *Exec) rangeStmt(s *ast.RangeStmt, st *State, cs []*ctl, label string) []*State {
	spec, ord := x.loopSpec(s)
	xt := x.info.TypeOf(s.X)
	// function iterators, maps, channels: outside the subset
	var keyVar, valVar *types.Var
	bindVar := func(e ast.Expr) *types.Var {
		id, ok := e.(*ast.Ident)
		if !ok || id.Name == "_" {
			return nil
		}
		if v, ok := x.info.Defs[id].(*types.Var); ok {
			return v
		}
		if v, ok := x.info.Uses[id].(*types.Var); ok {
			return v
		}
		return nil
	}
	if s.Key != nil {
		keyVar = bindVar(s.Key)
	}
	if s.Value != nil {
		valVar = bindVar(s.Value)
	}
	// `for part := range strings.SplitSeq(s, sep)`: the iterator yields, in
	// order, exactly the elements strings.Split(s, sep) returns; the loop is
	// executed as a range over that slice (the single loop variable is the
	// element). The laziness of the iterator is not observable here: Split
	// is pure.
	var seqSlice *Sl
	if call, ok := unparen(s.X).(*ast.CallExpr); ok && s.Value == nil {
		if fn := x.calleeOf(call); fn != nil && fn.Pkg() != nil && fn.Pkg().Path() == "strings" && fn.Name() == "SplitSeq" {
			if sp := x.eng.typesPkg("strings"); sp != nil {
				if split, _ := sp.Scope().Lookup("Split").(*types.Func); split != nil {
					if c := x.eng.contractFor(split); c != nil {
						var args []Value
						for i, a := range call.Args {
							args = append(args, x.exprT(a, st, split.Type().(*types.Signature).Params().At(i).Type()))
						}
						resT := split.Type().(*types.Signature).Results().At(0).Type()
						if sl, ok := x.applyContract(call, st, split, c, nil, args, resT).(Sl); ok {
							seqSlice = &sl
							xt = resT
							valVar, keyVar = keyVar, nil
						}
					}
				}
			}
		}
	}
	// `for i, v := range slices.Backward(s)` / slices.All(s), `for v := range
	// slices.Values(s)`: the iterator yields the elements of s (Backward: from
	// the last to the first); the loop is executed as a range over s, with the
	// index counted down for Backward.
	backward := false
	if call, ok := unparen(s.X).(*ast.CallExpr); ok && seqSlice == nil && len(call.Args) == 1 {
		if fn := x.calleeOf(call); fn != nil && fn.Pkg() != nil && fn.Pkg().Path() == "slices" &&
			(fn.Name() == "Backward" || fn.Name() == "All" || fn.Name() == "Values") {
			at := x.info.TypeOf(call.Args[0])
			if _, isSl := at.Underlying().(*types.Slice); isSl {
				if sl, ok := x.expr(call.Args[0], st).(Sl); ok {
					seqSlice = &sl
					xt = at
					backward = fn.Name() == "Backward"
					if fn.Name() == "Values" {
						valVar, keyVar = keyVar, nil
					}
				}
			}
		}
	}
	itName := fmt.Sprintf("it%d", ord)
	idxII := intInfo{64, true}

	// integer range
	var n *Term
	var elemAt func(st *State, i *Term) Value
	var mapKeyT, mapValT types.Type
	var elemT types.Type
	if ii, ok := intInfoOf(xt); ok {
		nv := x.scalar(x.expr(s.X, st))
		n = x.ar.convert(nv, ii, idxII)
	} else {
		var cv Value
		if seqSlice != nil {
			cv = *seqSlice
		} else {
			cv = x.expr(s.X, st)
		}
		switch u := xt.Underlying().(type) {
		case *types.Slice:
			sl := cv.(Sl)
			n = sl.Len
			elemT = u.Elem()
			elemAt = func(st *State, i *Term) Value { return x.readElem(st, sl, elemT, i) }
		case *types.Map:
			if x.coarse {
				// coarse units: an unknown number of iterations over unknown
				// keys and values (iteration order and content are not modelled)
				cnt := x.freshTerm("maplen", x.ar.idxSort())
				st.add(x.ar.le(x.ar.idxC(0), cnt, idxII))
				n = cnt
				mapKeyT, mapValT = u.Key(), u.Elem()
				x.abstr["range over map "+x.src(s.X)+": keys/values unknown"] = true
			}
		case *types.Array:
			av, ok := cv.(Ar)
			if !ok {
				x.fail(s.Pos(), "range over unsupported array value")
				return nil
			}
			n = x.ar.idxC(u.Len())
			elemT = u.Elem()
			elemAt = func(st *State, i *Term) Value { return x.readArr(st, av, elemT, i) }
		case *types.Basic:
			if isStringType(xt) {
				if !x.coarse {
					x.fail(s.Pos(), "outside subset: range over string (runes)")
					return nil
				}
				// coarse units: an unknown number (at most len) of unknown
				// code points at unknown byte positions
				sl, _ := cv.(Sl)
				cnt := x.freshTerm("runecnt", x.ar.idxSort())
				st.add(x.ar.le(x.ar.idxC(0), cnt, idxII))
				if sl.Len != nil {
					st.add(x.ar.le(cnt, sl.Len, idxII))
				}
				n = cnt
				mapKeyT, mapValT = types.Typ[types.Int], types.Typ[types.Rune]
				x.abstr["range over the runes of "+x.src(s.X)+": positions and code points unknown"] = true
			}
		default:
			_ = u
		}
		if n == nil {
			x.fail(s.Pos(), "outside subset: range over %s", xt)
			return nil
		}
	}
	setIter := func(sb *State, i *Term) {
		sb.ghosts[itName] = Sc{i}
		if mapKeyT != nil {
			if keyVar != nil {
				sb.vars[keyVar] = x.fresh(sb, mapKeyT, "mapkey")
			}
			if valVar != nil {
				sb.vars[valVar] = x.fresh(sb, mapValT, "mapval")
			}
			return
		}
		if backward {
			// position n-1-i of the slice
			i = x.idxSub(x.idxSub(n, x.ar.idxC(1)), i)
		}
		if keyVar != nil {
			kii, _ := intInfoOf(keyVar.Type())
			sb.vars[keyVar] = Sc{x.ar.convert(i, idxII, kii)}
		}
		if valVar != nil && elemAt != nil {
			sb.vars[valVar] = elemAt(sb, i)
		}
	}
	// complete unrolling for constant trip counts
	if n.IsConst() && n.Val.IsInt64() && n.Val.Int64() <= 64 && (spec == nil || len(spec.Invariants) == 0) {
		cnt := int(n.Val.Int64())
		cur := []*State{st}
		var exits []*State
		for it := 0; it < cnt && len(cur) > 0; it++ {
			var next []*State
			for _, sc := range cur {
				sb := sc
				setIter(sb, x.ar.idxC(int64(it)))
				var breaks, conts []*State
				frame := &ctl{label: label, isLoop: true, breaks: &breaks, continues: &conts}
				ncs := append(append([]*ctl(nil), cs...), frame)
				outs := x.stmt(s.Body, sb, ncs)
				outs = append(outs, conts...)
				next = append(next, outs...)
				exits = append(exits, breaks...)
			}
			cur = x.mergeMany(next)
			if len(cur) > 16 {
				x.fail(s.Pos(), "loop %d: path explosion while unrolling", ord)
				return nil
			}
		}
		return x.mergeMany(append(cur, exits...))
	}
	if x.coarse && (spec == nil || len(spec.Invariants) == 0) {
		spec = trivialLoopSpec(spec)
	}
	if spec == nil || len(spec.Invariants) == 0 {
		x.fail(s.Pos(), "loop %d has no invariant", ord)
		return nil
	}
	// invariant loop with hidden index
	mods := x.modifiedIn(s.Body, nil, nil)
	if keyVar != nil {
		mods.vars[keyVar] = true
	}
	if valVar != nil {
		mods.vars[valVar] = true
	}
	st.ghosts[itName] = Sc{x.ar.idxC(0)}
	zero := x.ar.idxC(0)
	var itAtHead *Term
	extraHavoc := func(h *State) {
		i := x.freshTerm(itName, x.ar.idxSort())
		h.ghosts[itName] = Sc{i}
		h.add(x.ar.le(zero, i, idxII))
		h.add(x.ar.le(i, n, idxII))
		itAtHead = i
	}
	condf := func(sc *State) *Term {
		i := x.scalar(sc.ghosts[itName])
		return x.ar.lt(i, n, idxII)
	}
	body := func(sb *State, ncs []*ctl) []*State {
		setIter(sb, x.scalar(sb.ghosts[itName]))
		return x.stmt(s.Body, sb, ncs)
	}
	post := func(sp *State, ncs []*ctl) []*State {
		i := x.scalar(sp.ghosts[itName])
		_ = itAtHead
		if x.ar.BV {
			sp.ghosts[itName] = Sc{BVBin("bvadd", i, BVC64(1, 64))}
		} else {
			sp.ghosts[itName] = Sc{IAdd(i, IntC(1))}
		}
		return []*State{sp}
	}
	return x.invariantLoop(s, ord, spec, st, cs, label, mods, condf, body, post, extraHavoc)
}

// ---- modified-set analysis for loop havoc

type modSet struct {
	vars     map[*types.Var]bool
	elems    map[*types.Var]bool // slices/arrays written through this variable
	heapKeys map[string]bool
	heapAll  bool
	ghosts   map[string]bool
	called   map[string]bool // simple names of the callees called
}

func (x *Exec) modifiedIn(nodes ...ast.Node) *modSet {
	m := &modSet{vars: map[*types.Var]bool{}, elems: map[*types.Var]bool{}, heapKeys: map[string]bool{}, ghosts: map[string]bool{}, called: map[string]bool{}}
	var lhs func(e ast.Expr)
	lhs = func(e ast.Expr) {
		switch e := e.(type) {
		case *ast.Ident:
			if v, ok := x.info.ObjectOf(e).(*types.Var); ok {
				m.vars[v] = true
			}
		case *ast.ParenExpr:
			lhs(e.X)
		case *ast.IndexExpr:
			// write through container
			if mt, ok := x.info.TypeOf(e.X).Underlying().(*types.Map); ok {
				x.markMapWrite(m, mt)
				return
			}
			x.markElemWrite(m, e.X)
		case *ast.SelectorExpr:
			x.markFieldWrite(m, e)
		case *ast.StarExpr:
			m.heapAll = true
		}
	}
	for _, n := range nodes {
		if n == nil || isNilNode(n) {
			continue
		}
		ast.Inspect(n, func(n ast.Node) bool {
			switch n := n.(type) {
			case *ast.AssignStmt:
				for _, l := range n.Lhs {
					lhs(l)
				}
			case *ast.IncDecStmt:
				lhs(n.X)
			case *ast.RangeStmt:
				if n.Key != nil {
					lhs(n.Key)
				}
				if n.Value != nil {
					lhs(n.Value)
				}
			case *ast.UnaryExpr:
				if n.Op == token.AND {
					// address taken: the variable may be written through the pointer
					if id, ok := n.X.(*ast.Ident); ok {
						if v, ok := x.info.ObjectOf(id).(*types.Var); ok {
							m.vars[v] = true
						}
					}
				}
			case *ast.CallExpr:
				x.markCallEffects(m, n)
			case *ast.FuncLit:
				return true
			}
			return true
		})
	}
	return m
}

func isNilNode(n ast.Node) bool {
	switch v := n.(type) {
	case *ast.BlockStmt:
		return v == nil
	case ast.Stmt:
		return v == nil
	case ast.Expr:
		return v == nil
	}
	return false
}

// markMapWrite: m[k] = v / delete(m, k) write the map heap (membership and
// the value components of that element type).
func (x *Exec) markMapWrite(m *modSet, mt *types.Map) {
	m.heapKeys["map:has"] = true
	for _, c := range x.layout(mt.Elem()) {
		m.heapKeys["map:val:"+typeKey(mt.Elem())+c.Suffix] = true
	}
}

func (x *Exec) markElemWrite(m *modSet, container ast.Expr) {
	switch c := container.(type) {
	case *ast.Ident:
		if v, ok := x.info.ObjectOf(c).(*types.Var); ok {
			m.elems[v] = true
			if _, isArr := v.Type().Underlying().(*types.Array); isArr {
				m.vars[v] = true
			}
		}
	case *ast.SelectorExpr:
		x.markFieldWrite(m, c)
	case *ast.SliceExpr:
		x.markElemWrite(m, c.X)
	case *ast.IndexExpr:
		x.markElemWrite(m, c.X)
	case *ast.ParenExpr:
		x.markElemWrite(m, c.X)
	default:
		m.heapAll = true
	}
}

func (x *Exec) markFieldWrite(m *modSet, e *ast.SelectorExpr) {
	sel := x.info.Selections[e]
	if sel == nil {
		// package-qualified variable
		m.heapAll = true
		return
	}
	// find root: if it is a local struct variable the variable itself is modified
	root := e.X
	for {
		switch r := root.(type) {
		case *ast.SelectorExpr:
			if x.info.Selections[r] != nil {
				if _, isPtr := x.info.TypeOf(r.X).Underlying().(*types.Pointer); isPtr {
					goto heap
				}
				root = r.X
				continue
			}
		case *ast.ParenExpr:
			root = r.X
			continue
		case *ast.Ident:
			if v, ok := x.info.ObjectOf(r).(*types.Var); ok {
				if _, isPtr := v.Type().Underlying().(*types.Pointer); !isPtr {
					m.vars[v] = true
					return
				}
			}
		}
		break
	}
heap:
	for _, k := range x.heapKeysOfSelection(e) {
		m.heapKeys[k] = true
	}
}

func (x *Exec) markCallEffects(m *modSet, call *ast.CallExpr) {
	if n := calleeSimpleName(call); n != "" && m.called != nil {
		m.called[n] = true
	}
	// builtins writing through arguments
	if id, ok := call.Fun.(*ast.Ident); ok {
		if b, ok := x.info.Uses[id].(*types.Builtin); ok {
			switch b.Name() {
			case "copy":
				x.markElemWrite(m, call.Args[0])
			case "clear", "delete":
				m.heapAll = true
			}
			return
		}
	}
	if tv, ok := x.info.Types[call.Fun]; ok && tv.IsType() {
		return // conversion
	}
	fn := x.calleeOf(call)
	if fn == nil && !(x.c != nil && x.c.Opts["frame"] == "args") {
		m.heapAll = true
		return
	}
	if fn != nil && x.isPureBuiltinFunc(fn) {
		return
	}
	var c *Contract
	if fn != nil {
		c = x.eng.contractFor(fn)
	}
	if c == nil && x.c != nil && x.c.Opts["frame"] == "args" {
		// same assumption as at the call itself: only the objects passed
		// (receiver, pointer arguments, one level) and passed slices change
		mark := func(t types.Type) {
			if t == nil {
				return
			}
			pt, ok := t.Underlying().(*types.Pointer)
			if !ok {
				return
			}
			su, ok := pt.Elem().Underlying().(*types.Struct)
			if !ok {
				return
			}
			for i := 0; i < su.NumFields(); i++ {
				m.heapKeys[typeKey(pt.Elem())+"."+su.Field(i).Name()] = true
			}
		}
		if sel, ok := unparen(call.Fun).(*ast.SelectorExpr); ok {
			if s := x.info.Selections[sel]; s != nil {
				mark(s.Recv())
			}
		}
		for _, a := range call.Args {
			mark(x.info.TypeOf(a))
			if _, ok := x.info.TypeOf(a).Underlying().(*types.Slice); ok {
				x.markElemWrite(m, a)
			}
			if lit, ok := unparen(a).(*ast.FuncLit); ok {
				sub := x.modifiedIn(lit.Body)
				for k := range sub.heapKeys {
					m.heapKeys[k] = true
				}
				for k := range sub.vars {
					m.vars[k] = true
				}
				for k := range sub.elems {
					m.elems[k] = true
				}
				if sub.heapAll {
					m.heapAll = true
				}
			}
		}
		return
	}
	if c == nil {
		m.heapAll = true
		// slices passed to an unknown callee may be written
		for _, a := range call.Args {
			if _, ok := x.info.TypeOf(a).Underlying().(*types.Slice); ok {
				x.markElemWrite(m, a)
			}
		}
		return
	}
	for _, mod := range c.Modifies {
		x.markContractMod(m, c, fn, call, mod)
	}
}

func (x *Exec) markContractMod(m *modSet, c *Contract, fn *types.Func, call *ast.CallExpr, mod string) {
	mod = strings.TrimSpace(mod)
	if mod == "" {
		return
	}
	if mod == "*" {
		m.heapAll = true
		return
	}
	// forms: "p[*]" (elements of slice param p), "recv.f" / "p.f" (heap field), "G:name" ghost, "#name" ghost field
	if i := strings.Index(mod, "@"); i >= 0 {
		if key, ft := x.typedFieldKey(c.Pkg, mod[i+1:]); ft != nil {
			m.heapKeys[key] = true
			return
		}
		m.heapAll = true
		return
	}
	if strings.HasSuffix(mod, "[*]") {
		pname := strings.TrimSuffix(mod, "[*]")
		if arg := x.argForParam(c, fn, call, pname); arg != nil {
			x.markElemWrite(m, arg)
		}
		return
	}
	if j := strings.LastIndex(mod, ".#"); j >= 0 {
		for _, g := range x.eng.cs.expandGhost(mod[j+2:]) {
			m.heapKeys["ghost:"+g] = true
		}
		return
	}
	if strings.HasPrefix(mod, "map:") {
		m.heapKeys[mod] = true
		return
	}
	if i := strings.Index(mod, "."); i >= 0 {
		pname, f := mod[:i], mod[i+1:]
		if strings.HasPrefix(f, "#") || strings.HasPrefix(f, "G_") {
			for _, g := range x.eng.cs.expandGhost(strings.TrimPrefix(strings.TrimPrefix(f, "#"), "G_")) {
				m.heapKeys["ghost:"+g] = true
			}
			return
		}
		// heap field of the parameter's struct type
		pt := x.paramType(c, fn, pname)
		if pt != nil {
			if k, ok := x.heapKeyForField(pt, f); ok {
				for _, kk := range k {
					m.heapKeys[kk] = true
				}
				return
			}
		}
	}
	m.heapAll = true
}

func (x *Exec) havoc(h *State, m *modSet) {
	x.bumpFrontier(h)
	if x.c != nil && x.c.usesCallRecords {
		// call records: the havocked code may have made any number of calls
		var names []string
		for n := range m.called {
			names = append(names, n)
		}
		sort.Strings(names)
		for _, n := range names {
			old := x.ar.mathC(newBig(0))
			if sc, ok := h.ghosts["$calls:"+n].(Sc); ok {
				old = sc.T
			}
			nv := x.freshTerm("ncalls", old.S)
			h.add(x.ar.le(old, nv, x.ar.mathInfo()))
			h.ghosts["$calls:"+n] = Sc{nv}
			delete(h.ghosts, "$res:"+n)
			for i := 0; i < 4; i++ {
				delete(h.ghosts, fmt.Sprintf("$arg%d:%s", i, n))
			}
		}
	}
	// deterministic order
	var vs []*types.Var
	for v := range m.vars {
		vs = append(vs, v)
	}
	sort.Slice(vs, func(i, j int) bool { return vs[i].Pos() < vs[j].Pos() })
	for _, v := range vs {
		if _, ok := h.vars[v]; !ok {
			continue // declared inside the loop
		}
		if bx, isBx := h.vars[v].(Bx); isBx {
			// a local that lives in the heap keeps its cell; the content
			// becomes unknown (its ghost fields are havocked through the
			// callee contracts' modifies clauses, like any object's)
			x.heapStoreStruct(h, v.Type(), bx.P, x.fresh(h, v.Type(), v.Name()))
			continue
		}
		h.vars[v] = x.fresh(h, v.Type(), v.Name())
	}
	var es []*types.Var
	for v := range m.elems {
		es = append(es, v)
	}
	sort.Slice(es, func(i, j int) bool { return es[i].Pos() < es[j].Pos() })
	for _, v := range es {
		val, ok := h.vars[v]
		if !ok {
			continue
		}
		if sl, ok := val.(Sl); ok && sl.Reg != nil {
			old := h.regs[sl.Reg]
			nt := make([]*Term, len(old))
			for i, o := range old {
				nt[i] = x.freshTerm(sl.Reg.Name, o.S)
			}
			h.regs[sl.Reg] = nt
		}
	}
	if m.heapAll {
		x.inLoopHavoc = true
		x.havocHeapAll(h)
		x.inLoopHavoc = false
	} else {
		var ks []string
		for k := range m.heapKeys {
			ks = append(ks, k)
		}
		sort.Strings(ks)
		for _, k := range ks {
			x.havocHeapKey(h, k)
		}
	}
}

func (x *Exec) havocHeapAll(h *State) {
	if !x.inLoopHavoc {
		x.noteWrite("*", nil)
	}
	h.epoch = x.nextEpoch()
	h.heap = map[string]*Term{}
	h.hv = map[string]int{}
}

func (x *Exec) havocHeapKey(h *State, k string) {
	// k may be a prefix (all components of a field)
	for hk := range h.heap {
		if hk == k || strings.HasPrefix(hk, k+".") {
			delete(h.heap, hk)
		}
	}
	h.hv[k] = x.nextEpoch()
}

func (x *Exec) nextEpoch() int { x.epochN++; return x.epochN }

// ---- return / defer

func (x *Exec) returnStmt(s *ast.ReturnStmt, st *State) {
	if x.litReturn != nil {
		for i, e := range s.Results {
			v := x.expr(e, st)
			if i == 0 && len(s.Results) == 1 {
				if _, isTu := v.(Tu); !isTu {
					st.ghosts["litresult"] = v
					x.ghostTypes["litresult"] = x.info.TypeOf(e)
				}
			}
		}
		*x.litReturn = append(*x.litReturn, st)
		return
	}
	inl := len(x.inlineStack) > 0
	var vals []Value
	switch {
	case len(s.Results) == 0:
		for _, r := range x.results {
			if bx, isBx := st.vars[r].(Bx); isBx {
				vals = append(vals, x.heapLoad(st, r.Type(), bx.P, ""))
				continue
			}
			vals = append(vals, st.vars[r])
		}
	case len(s.Results) == len(x.results):
		for i, e := range s.Results {
			v := x.exprT(e, st, x.results[i].Type())
			vals = append(vals, x.convertTo(st, v, x.info.TypeOf(e), x.results[i].Type()))
		}
	default:
		v := x.expr(s.Results[0], st)
		if tu, ok := v.(Tu); ok {
			vals = tu.Vs
		}
	}
	if st.dead() {
		return
	}
	if len(vals) != len(x.results) {
		x.fail(s.Pos(), "return arity mismatch")
		return
	}
	for i, r := range x.results {
		if bx, isBx := st.vars[r].(Bx); isBx {
			// a named result whose address was taken lives in the heap
			x.heapStoreStruct(st, r.Type(), bx.P, vals[i])
			continue
		}
		st.vars[r] = vals[i]
	}
	if inl {
		x.inlineReturn(st)
		return
	}
	x.finish(st, s)
}

// finish runs defers and checks postconditions at a return point.
func (x *Exec) finish(st *State, at ast.Node) {
	x.nReturns++
	states := []*State{st}
	if len(st.defers) > 0 {
		ds := st.defers
		st.defers = nil
		for i := len(ds) - 1; i >= 0; i-- {
			var next []*State
			for _, s := range states {
				next = append(next, ds[i].run(s)...)
			}
			states = next
		}
	}
	var pos token.Pos
	if at != nil {
		pos = at.Pos()
	}
	retName := "end"
	if rs, ok := at.(*ast.ReturnStmt); ok {
		retName = x.site("ret", rs)
	} else {
		retName = x.site("ret", nil)
	}
	for i, s := range states {
		rn := retName
		if len(states) > 1 {
			// deferred code split the path: one set of obligations per outcome
			rn = fmt.Sprintf("%s~%d", retName, i+1)
		}
		cov := x.oblige(s, "cover", "cover."+rn, "", False, pos)
		cov.Cover, cov.MustFail = true, true
		x.checkPost(s, rn, pos)
	}
}

func (x *Exec) deferStmt(s *ast.DeferStmt, st *State) {
	call := s.Call
	// evaluate arguments now
	if lit, ok := call.Fun.(*ast.FuncLit); ok && len(call.Args) == 0 {
		st.defers = append(st.defers, deferred{run: func(s2 *State) []*State {
			// run body inline; returns inside the literal end the literal
			return x.inlineLit(lit, s2)
		}})
		return
	}
	// plain call: bind argument values now, perform call at exit
	var argVals []Value
	for _, a := range call.Args {
		argVals = append(argVals, x.expr(a, st))
	}
	var recvVal Value
	if sel, ok := call.Fun.(*ast.SelectorExpr); ok {
		if x.info.Selections[sel] != nil {
			recvVal = x.expr(sel.X, st)
		}
	}
	st.defers = append(st.defers, deferred{run: func(s2 *State) []*State {
		res := x.callWith(call, s2, recvVal, argVals)
		x.recordCall(call, s2, argVals, res)
		return x.live(s2)
	}})
}

// inlineLit executes a function literal body in place (captured variables are
// the enclosing state's). A return inside ends the literal.
func (x *Exec) inlineLit(lit *ast.FuncLit, st *State) []*State {
	var rets []*State
	old := x.litReturn
	x.litReturn = &rets
	outs := x.stmts(lit.Body.List, []*State{st}, nil)
	x.litReturn = old
	return append(outs, rets...)
}

func newBigFromConst(cv constant.Value) (*bigInt, bool) {
	iv := constant.ToInt(cv)
	if iv.Kind() != constant.Int {
		return nil, false
	}
	b, ok := new(bigInt).SetString(iv.ExactString(), 10)
	return b, ok
}
