package main

// SMT-LIB emission and the solver race (DESIGN 2.8).

import (
	"bytes"
	"context"
	"fmt"
	"os"
	"os/exec"
	"path/filepath"
	"regexp"
	"strings"
	"sync"
	"time"
)

type SolverSpec struct {
	Name string
	Cmd  []string
}

var solvers = []SolverSpec{
	{"z3-5.1.0", []string{"z3-new", "-smt2"}},
	{"z3-4.8.12", []string{"z3", "-smt2"}},
	{"cvc5-1.0", []string{"cvc5", "--lang=smt2", "--produce-models"}},
}

// altSolvers: other configurations of the installed solvers, raced in the
// quick tier's second stage and in the retry ladder (z3's legacy arithmetic
// core decides some quantified integer goals in a fraction of a second that
// the default core needs half a minute for, and vice versa). They are not
// counted as independent solvers in the thorough tier.
var altSolvers = []SolverSpec{
	{"z3-5.1.0/arith2", []string{"z3-new", "-smt2", "smt.arith.solver=2"}},
}

func (o *Obligation) smt(extra []*Term, withValues bool) string {
	st := newSymtab()
	for _, a := range o.Assume {
		st.collect(a, nil)
	}
	st.collect(o.Goal, nil)
	for _, a := range extra {
		st.collect(a, nil)
	}
	var vals []*Term
	if withValues {
		for _, in := range o.Inputs {
			switch in.Kind {
			case "int", "bool":
				vals = append(vals, in.T)
			case "bytes", "string":
				vals = append(vals, in.Len)
			}
		}
		for _, v := range vals {
			st.collect(v, nil)
		}
	}
	var sb strings.Builder
	sb.WriteString("(set-option :produce-models true)\n(set-logic ALL)\n")
	sb.WriteString(st.declsSMT())
	for _, a := range o.Assume {
		fmt.Fprintf(&sb, "(assert %s)\n", a)
	}
	for _, a := range extra {
		fmt.Fprintf(&sb, "(assert %s)\n", a)
	}
	fmt.Fprintf(&sb, "(assert (not %s))\n(check-sat)\n", o.Goal)
	return sb.String()
}

// valueQuery appends get-value requests for inputs (scalars, lengths and the
// first maxElems elements of byte slices).
func (o *Obligation) valueQuery(maxElems int, ar *Arith) (string, []string) {
	var sb strings.Builder
	var keys []string
	for _, in := range o.Inputs {
		switch in.Kind {
		case "int", "bool":
			fmt.Fprintf(&sb, "(get-value (%s))\n", in.T)
			keys = append(keys, in.Name)
		case "bytes", "string":
			fmt.Fprintf(&sb, "(get-value (%s))\n", in.Len)
			keys = append(keys, in.Name+".len")
			for i := 0; i < maxElems; i++ {
				var idx *Term
				if ar.BV {
					idx = BVBin("bvadd", in.Off, BVC64(int64(i), 64))
				} else {
					idx = IAdd(in.Off, IntC(int64(i)))
				}
				fmt.Fprintf(&sb, "(get-value (%s))\n", Select(in.Arr, idx))
				keys = append(keys, fmt.Sprintf("%s[%d]", in.Name, i))
			}
		}
	}
	return sb.String(), keys
}

type solveResult struct {
	status string
	solver string
	ms     int64
	out    string
}

func runSolver(ctx context.Context, s SolverSpec, file string, timeout time.Duration) solveResult {
	cctx, cancel := context.WithTimeout(ctx, timeout+500*time.Millisecond)
	defer cancel()
	args := append([]string(nil), s.Cmd[1:]...)
	switch {
	case strings.HasPrefix(s.Name, "z3"):
		args = append(args, fmt.Sprintf("-T:%d", int(timeout.Seconds())+1))
	case strings.HasPrefix(s.Name, "cvc5"):
		args = append(args, fmt.Sprintf("--tlimit=%d", timeout.Milliseconds()))
	}
	args = append(args, file)
	cmd := exec.CommandContext(cctx, s.Cmd[0], args...)
	var out bytes.Buffer
	cmd.Stdout = &out
	cmd.Stderr = &out
	t0 := time.Now()
	_ = cmd.Run()
	ms := time.Since(t0).Milliseconds()
	text := out.String()
	first := strings.TrimSpace(strings.SplitN(text, "\n", 2)[0])
	status := "error"
	switch first {
	case "unsat", "sat", "unknown":
		status = first
	case "timeout":
		status = "timeout"
	default:
		if cctx.Err() != nil {
			status = "timeout"
		} else if strings.Contains(text, "timeout") || strings.Contains(text, "interrupted") {
			status = "timeout"
		}
	}
	return solveResult{status, s.Name, ms, text}
}

type Discharger struct {
	workDir  string
	timeout  time.Duration
	thorough bool
	sem      chan struct{}
	seed     int
}

// discharge races the solvers on one obligation. Quick tier: z3-new first, the
// others only if it is not definitive. Thorough: all three, at least two must
// say unsat and none sat.
func (d *Discharger) discharge(o *Obligation, ar *Arith) {
	if o.Status != "" {
		// decided without a solver (ownership rules over the typed AST)
		return
	}
	if o.Goal.IsTrue() {
		o.Status, o.Solver = "unsat", "simplifier"
		return
	}
	d.sem <- struct{}{}
	defer func() { <-d.sem }()
	base := o.smt(nil, false)
	text := base
	fname := filepath.Join(d.workDir, safeFile(o.Name)+".smt2")
	if err := os.WriteFile(fname, []byte(text), 0o644); err != nil {
		o.Status, o.Output = "error", err.Error()
		return
	}
	o.SMT = fname
	ctx, cancel := context.WithCancel(context.Background())
	defer cancel()
	var results []solveResult
	if !d.thorough {
		quickT := d.timeout
		if o.Cover || o.MustFail {
			// reachability covers and known-finding canaries are expected to be
			// satisfiable: a short single-solver attempt is enough (an undecided
			// cover is only noted, an undecided canary still reproduces)
			quickT = 3 * time.Second
		}
		r := runSolver(ctx, solvers[0], fname, quickT)
		results = append(results, r)
		if r.status != "unsat" && r.status != "sat" && !o.Cover && !o.MustFail {
			stage2 := append(append([]SolverSpec(nil), solvers[1:]...), altSolvers...)
			ch := make(chan solveResult, len(stage2))
			for _, s := range stage2 {
				go func(s SolverSpec) { ch <- runSolver(ctx, s, fname, d.timeout) }(s)
			}
			for range stage2 {
				r2 := <-ch
				results = append(results, r2)
				if r2.status == "unsat" || r2.status == "sat" {
					cancel()
					break
				}
			}
		}
	} else {
		ch := make(chan solveResult, len(solvers))
		for _, s := range solvers {
			go func(s SolverSpec) { ch <- runSolver(ctx, s, fname, d.timeout) }(s)
		}
		for range solvers {
			results = append(results, <-ch)
		}
	}
	// retry ladder (DESIGN 2.8): nobody was definitive -> one more attempt with
	// six times the budget on the two z3 versions, so that a loaded machine
	// does not turn a slow proof into an alarm
	if !o.Cover && !o.MustFail {
		definitive := false
		for _, r := range results {
			if r.status == "unsat" || r.status == "sat" {
				definitive = true
			}
		}
		if !definitive {
			ladder := append(append([]SolverSpec(nil), solvers[:2]...), altSolvers...)
			ch := make(chan solveResult, len(ladder))
			for _, s := range ladder {
				go func(s SolverSpec) { ch <- runSolver(ctx, s, fname, 6*d.timeout) }(s)
			}
			for range ladder {
				r2 := <-ch
				results = append(results, r2)
				if r2.status == "unsat" || r2.status == "sat" {
					cancel()
					break
				}
			}
		}
	}
	if os.Getenv("GVC_DEBUG") != "" {
		for _, r := range results {
			fmt.Fprintf(os.Stderr, "discharge %s: %s %s %dms\n", o.Name, r.solver, r.status, r.ms)
		}
	}
	nUnsat, nSat := 0, 0
	var total int64
	var names []string
	for _, r := range results {
		if r.status == "unsat" {
			nUnsat++
			names = append(names, r.solver)
		}
		if r.status == "sat" {
			nSat++
		}
		if r.ms > total {
			total = r.ms
		}
	}
	o.Ms = total
	switch {
	case nUnsat > 0 && nSat > 0:
		o.Status = "disagree"
		o.Output = "solvers disagree"
	case nSat > 0:
		o.Status = "sat"
		for _, r := range results {
			if r.status == "sat" {
				o.Solver = r.solver
				o.Output = r.out
				break
			}
		}
	case nUnsat > 0 && (!d.thorough || nUnsat >= 2):
		o.Status = "unsat"
		o.Solver = strings.Join(names, "+")
	case nUnsat == 1:
		o.Status = "unsat1"
		o.Solver = names[0]
	default:
		o.Status = "unknown"
		for _, r := range results {
			if r.status == "timeout" {
				o.Status = "timeout"
			}
			o.Output += r.solver + ": " + firstLines(r.out, 3) + "\n"
		}
	}
	if o.Status == "sat" && !o.Cover {
		d.fetchModel(o, ar)
	}
}

func firstLines(s string, n int) string {
	ls := strings.Split(strings.TrimSpace(s), "\n")
	if len(ls) > n {
		ls = ls[:n]
	}
	return strings.Join(ls, " | ")
}

var safeRe = regexp.MustCompile(`[^A-Za-z0-9_.@#-]+`)

func safeFile(s string) string {
	s = safeRe.ReplaceAllString(s, "_")
	if len(s) > 150 {
		s = s[:150]
	}
	return s
}

// fetchModel asks for a small model: input slices bounded to 48 bytes first.
func (d *Discharger) fetchModel(o *Obligation, ar *Arith) {
	try := func(bound int) bool {
		var extra []*Term
		if bound > 0 {
			for _, in := range o.Inputs {
				if in.Kind == "bytes" || in.Kind == "string" {
					extra = append(extra, ar.le(in.Len, ar.idxC(int64(bound)), idxII))
				}
			}
		}
		q := o.smt(extra, false)
		vq, keys := o.valueQuery(48, ar)
		fname := filepath.Join(d.workDir, safeFile(o.Name)+".model.smt2")
		os.WriteFile(fname, []byte(q+vq), 0o644)
		r := runSolver(context.Background(), solvers[0], fname, d.timeout)
		if r.status != "sat" {
			return false
		}
		lines := strings.Split(strings.TrimSpace(r.out), "\n")
		o.Model = map[string]string{}
		vals := parseGetValues(strings.Join(lines[1:], "\n"))
		for i, k := range keys {
			if i < len(vals) {
				o.Model[k] = vals[i]
			}
		}
		return true
	}
	if !try(48) {
		try(0)
	}
}

// parseGetValues extracts the value of each `((term value))` answer, in order.
func parseGetValues(s string) []string {
	var out []string
	depth := 0
	start := -1
	for i := 0; i < len(s); i++ {
		switch s[i] {
		case '(':
			if depth == 0 {
				start = i
			}
			depth++
		case ')':
			depth--
			if depth == 0 && start >= 0 {
				out = append(out, lastSexp(s[start:i+1]))
				start = -1
			}
		case '|':
			// quoted symbol
			j := strings.IndexByte(s[i+1:], '|')
			if j >= 0 {
				i += j + 1
			}
		}
	}
	return out
}

// lastSexp: given "((t v))" returns v as text.
func lastSexp(s string) string {
	s = strings.TrimSpace(s)
	s = strings.TrimSuffix(strings.TrimPrefix(s, "(("), "))")
	// v is the last balanced expression
	depth := 0
	inq := false
	for i := len(s) - 1; i >= 0; i-- {
		c := s[i]
		if c == '|' {
			inq = !inq
			continue
		}
		if inq {
			continue
		}
		switch c {
		case ')':
			depth++
		case '(':
			depth--
			if depth == 0 {
				return strings.TrimSpace(s[i:])
			}
		case ' ', '\n', '\t':
			if depth == 0 {
				return strings.TrimSpace(s[i+1:])
			}
		}
	}
	return s
}

// smtValueToInt parses "#x0a", "#b101", "12", "(- 5)".
func smtValueToInt(v string, signedW int) (string, bool) {
	v = strings.TrimSpace(v)
	switch {
	case strings.HasPrefix(v, "#x"):
		var n uint64
		if _, err := fmt.Sscanf(v[2:], "%x", &n); err != nil {
			return "", false
		}
		if signedW > 0 && signedW < 64 && n >= 1<<(uint(signedW)-1) {
			return fmt.Sprintf("%d", int64(n)-(1<<uint(signedW))), true
		}
		if signedW == 64 {
			return fmt.Sprintf("%d", int64(n)), true
		}
		return fmt.Sprintf("%d", n), true
	case strings.HasPrefix(v, "#b"):
		var n uint64
		for _, c := range v[2:] {
			n = n<<1 | uint64(c-'0')
		}
		return fmt.Sprintf("%d", n), true
	case strings.HasPrefix(v, "(-"):
		inner := strings.TrimSpace(strings.TrimSuffix(strings.TrimPrefix(v, "(-"), ")"))
		return "-" + inner, true
	case v == "true" || v == "false":
		return v, true
	}
	for _, c := range v {
		if c < '0' || c > '9' {
			return "", false
		}
	}
	return v, v != ""
}

func dischargeAll(obs []*Obligation, ars map[*Obligation]*Arith, d *Discharger) {
	var wg sync.WaitGroup
	for _, o := range obs {
		wg.Add(1)
		go func(o *Obligation) {
			defer wg.Done()
			d.discharge(o, ars[o])
		}(o)
	}
	wg.Wait()
}
