package main

// Machine-integer semantics in the two theories (DESIGN 2.3).
//   bv : every Go integer is a bit-vector of its exact width.
//   int: Go integers are SMT Int within their type's range; signed + - *
//        emit overflow side-obligations; unsigned + - * either emit them
//        (default) or wrap with mod (unit option wrap_ok).

import (
	"fmt"
	"go/constant"
	"go/token"
	"go/types"
	"math/big"
)

type intInfo struct {
	W      int
	Signed bool
}

func basicOf(t types.Type) *types.Basic {
	if t == nil {
		return nil
	}
	b, _ := t.Underlying().(*types.Basic)
	return b
}

func intInfoOf(t types.Type) (intInfo, bool) {
	b := basicOf(t)
	if b == nil {
		return intInfo{}, false
	}
	switch b.Kind() {
	case types.Int, types.Int64, types.UntypedInt:
		return intInfo{64, true}, true
	case types.Int32, types.UntypedRune:
		return intInfo{32, true}, true
	case types.Int16:
		return intInfo{16, true}, true
	case types.Int8:
		return intInfo{8, true}, true
	case types.Uint, types.Uint64, types.Uintptr:
		return intInfo{64, false}, true
	case types.Uint32:
		return intInfo{32, false}, true
	case types.Uint16:
		return intInfo{16, false}, true
	case types.Uint8:
		return intInfo{8, false}, true
	}
	return intInfo{}, false
}

func isBoolType(t types.Type) bool {
	b := basicOf(t)
	return b != nil && (b.Kind() == types.Bool || b.Kind() == types.UntypedBool)
}

func isStringType(t types.Type) bool {
	b := basicOf(t)
	return b != nil && (b.Kind() == types.String || b.Kind() == types.UntypedString)
}

func (ii intInfo) min() *big.Int {
	if !ii.Signed {
		return big.NewInt(0)
	}
	return new(big.Int).Neg(new(big.Int).Lsh(big.NewInt(1), uint(ii.W-1)))
}
func (ii intInfo) max() *big.Int {
	w := ii.W
	if ii.Signed {
		w--
	}
	m := new(big.Int).Lsh(big.NewInt(1), uint(w))
	return m.Sub(m, big.NewInt(1))
}

func pow2(k int) *big.Int { return new(big.Int).Lsh(big.NewInt(1), uint(k)) }

// Arith carries the theory choice.
type Arith struct {
	BV     bool
	WrapOK bool // int theory: unsigned + - * wrap (mod) instead of emitting ovf
	MathW  int  // bv theory: width of mathematical integers in contracts
}

func (a *Arith) sortOfInt(ii intInfo) *Sort {
	if a.BV {
		return BVSort(ii.W)
	}
	return IntSort
}

// mathSort is the sort of mathematical integers in contracts.
func (a *Arith) mathSort() *Sort {
	if a.BV {
		return BVSort(a.MathW)
	}
	return IntSort
}

// idxSort is the sort of Go int (slice indices and lengths).
func (a *Arith) idxSort() *Sort {
	if a.BV {
		return BVSort(64)
	}
	return IntSort
}

func (a *Arith) idxC(v int64) *Term {
	if a.BV {
		return BVC64(v, 64)
	}
	return IntC(v)
}

func (a *Arith) constInt(v *big.Int, ii intInfo) *Term {
	if a.BV {
		return BVC(v, ii.W)
	}
	return IntBig(v)
}

func (a *Arith) constOf(cv constant.Value, t types.Type) (*Term, error) {
	if isBoolType(t) {
		return BoolC(constant.BoolVal(cv)), nil
	}
	ii, ok := intInfoOf(t)
	if !ok {
		return nil, fmt.Errorf("constant of unsupported type %s", t)
	}
	iv := constant.ToInt(cv)
	if iv.Kind() != constant.Int {
		return nil, fmt.Errorf("non-integer constant %s", cv)
	}
	bi, ok2 := new(big.Int).SetString(iv.ExactString(), 10)
	if !ok2 {
		return nil, fmt.Errorf("bad constant %s", cv)
	}
	return a.constInt(bi, ii), nil
}

// rangeFact: int theory type-range invariant of an integer-typed term.
func (a *Arith) rangeFact(x *Term, ii intInfo) *Term {
	if a.BV {
		return True
	}
	if x.IsConst() {
		return True
	}
	return And(ILe(IntBig(ii.min()), x), ILe(x, IntBig(ii.max())))
}

// arithRes is the result of a binary operation plus side obligations.
type arithRes struct {
	T    *Term
	Ovf  *Term // must hold for math==machine (int theory); nil if none
	Safe *Term // must hold or Go panics (div by zero, negative shift); nil if none
	Kind string
	Err  error
}

func (a *Arith) lt(x, y *Term, ii intInfo) *Term {
	if a.BV {
		if ii.Signed {
			return BVCmp("bvslt", x, y)
		}
		return BVCmp("bvult", x, y)
	}
	return ILt(x, y)
}
func (a *Arith) le(x, y *Term, ii intInfo) *Term {
	if a.BV {
		if ii.Signed {
			return BVCmp("bvsle", x, y)
		}
		return BVCmp("bvule", x, y)
	}
	return ILe(x, y)
}

func (a *Arith) cmp(op token.Token, x, y *Term, ii intInfo) *Term {
	switch op {
	case token.EQL:
		return Eq(x, y)
	case token.NEQ:
		return Neq(x, y)
	case token.LSS:
		return a.lt(x, y, ii)
	case token.LEQ:
		return a.le(x, y, ii)
	case token.GTR:
		return a.lt(y, x, ii)
	case token.GEQ:
		return a.le(y, x, ii)
	}
	panic("cmp: bad op " + op.String())
}

// wrapInt reduces a mathematical Int into the range of ii (int theory).
func wrapInt(x *Term, ii intInfo) *Term {
	m := IntBig(pow2(ii.W))
	if !ii.Signed {
		return IMod(x, m)
	}
	h := IntBig(pow2(ii.W - 1))
	return ISub(IMod(IAdd(x, h), m), h)
}

// maskRuns decomposes a non-negative constant mask into runs of set bits.
func maskRuns(c *big.Int) [][2]int {
	var runs [][2]int
	n := c.BitLen()
	i := 0
	for i < n {
		if c.Bit(i) == 1 {
			j := i
			for j < n && c.Bit(j) == 1 {
				j++
			}
			runs = append(runs, [2]int{i, j - i})
			i = j
		} else {
			i++
		}
	}
	return runs
}

// intAndConst: x & c for non-negative x (int theory).
func intAndConst(x *Term, c *big.Int) *Term {
	r := IntC(0)
	for _, run := range maskRuns(c) {
		lo, n := run[0], run[1]
		part := IMod(IDiv(x, IntBig(pow2(lo))), IntBig(pow2(n)))
		r = IAdd(r, IMul(part, IntBig(pow2(lo))))
	}
	if r.Op == "+" && r.Args[0].IsConst() && r.Args[0].Val.Sign() == 0 {
		return r.Args[1]
	}
	return r
}

func (a *Arith) binop(op token.Token, x, y *Term, ii intInfo, yii intInfo) arithRes {
	if a.BV {
		return a.binopBV(op, x, y, ii, yii)
	}
	return a.binopInt(op, x, y, ii, yii)
}

func (a *Arith) binopBV(op token.Token, x, y *Term, ii intInfo, yii intInfo) arithRes {
	switch op {
	case token.ADD:
		return arithRes{T: BVBin("bvadd", x, y)}
	case token.SUB:
		return arithRes{T: BVBin("bvsub", x, y)}
	case token.MUL:
		return arithRes{T: BVBin("bvmul", x, y)}
	case token.AND:
		return arithRes{T: BVBin("bvand", x, y)}
	case token.OR:
		return arithRes{T: BVBin("bvor", x, y)}
	case token.XOR:
		return arithRes{T: BVBin("bvxor", x, y)}
	case token.AND_NOT:
		return arithRes{T: BVBin("bvand", x, BVNot(y))}
	case token.QUO, token.REM:
		nz := Neq(y, BVC64(0, ii.W))
		var o string
		switch {
		case op == token.QUO && ii.Signed:
			o = "bvsdiv"
		case op == token.QUO:
			o = "bvudiv"
		case ii.Signed:
			o = "bvsrem"
		default:
			o = "bvurem"
		}
		return arithRes{T: BVBin(o, x, y), Safe: nz, Kind: "div"}
	case token.SHL, token.SHR:
		// bring the count to x's width, saturating
		var safe *Term
		if yii.Signed {
			safe = Not(BVCmp("bvslt", y, BVC64(0, yii.W)))
		}
		cnt := y
		var big_ *Term = False
		if yii.W > ii.W {
			big_ = Not(BVCmp("bvult", y, BVC64(int64(ii.W), yii.W)))
			cnt = BVExtract(ii.W-1, 0, y)
		} else if yii.W < ii.W {
			cnt = BVZeroExt(ii.W-yii.W, y)
		}
		var r *Term
		if op == token.SHL {
			r = Ite(big_, BVC64(0, ii.W), BVBin("bvshl", x, cnt))
		} else if ii.Signed {
			r = Ite(big_, BVBin("bvashr", x, BVC64(int64(ii.W-1), ii.W)), BVBin("bvashr", x, cnt))
		} else {
			r = Ite(big_, BVC64(0, ii.W), BVBin("bvlshr", x, cnt))
		}
		return arithRes{T: r, Safe: safe, Kind: "shift"}
	}
	return arithRes{Err: fmt.Errorf("unsupported bv operator %s", op)}
}

func (a *Arith) binopInt(op token.Token, x, y *Term, ii intInfo, yii intInfo) arithRes {
	inRange := func(r *Term) *Term {
		return And(ILe(IntBig(ii.min()), r), ILe(r, IntBig(ii.max())))
	}
	wrapOrOvf := func(r *Term) arithRes {
		if r.IsConst() {
			return arithRes{T: r}
		}
		if a.WrapOK {
			return arithRes{T: wrapInt(r, ii)}
		}
		return arithRes{T: r, Ovf: inRange(r)}
	}
	switch op {
	case token.ADD:
		return wrapOrOvf(IAdd(x, y))
	case token.SUB:
		return wrapOrOvf(ISub(x, y))
	case token.MUL:
		return wrapOrOvf(IMul(x, y))
	case token.QUO, token.REM:
		nz := Neq(y, IntC(0))
		if y.IsConst() && y.Val.Sign() > 0 && !ii.Signed {
			if op == token.QUO {
				return arithRes{T: IDiv(x, y)}
			}
			return arithRes{T: IMod(x, y)}
		}
		// Go truncated division from SMT euclidean division
		var r *Term
		if !ii.Signed {
			if op == token.QUO {
				r = IDiv(x, y)
			} else {
				r = IMod(x, y)
			}
		} else {
			q := Ite(IGe(x, IntC(0)), IDiv(x, y), mk("-", IntSort, IDiv(mk("-", IntSort, x), y)))
			if op == token.QUO {
				r = q
			} else {
				r = ISub(x, IMul(q, y))
			}
		}
		return arithRes{T: r, Safe: nz, Kind: "div"}
	case token.SHL, token.SHR:
		var safe *Term
		if yii.Signed {
			safe = IGe(y, IntC(0))
		}
		if !y.IsConst() {
			return arithRes{Err: fmt.Errorf("int theory: shift by non-constant amount")}
		}
		k := int(y.Val.Int64())
		if k >= ii.W {
			if op == token.SHR && ii.Signed {
				return arithRes{T: Ite(ILt(x, IntC(0)), IntC(-1), IntC(0)), Safe: safe, Kind: "shift"}
			}
			return arithRes{T: IntC(0), Safe: safe, Kind: "shift"}
		}
		if op == token.SHR {
			return arithRes{T: IDiv(x, IntBig(pow2(k))), Safe: safe, Kind: "shift"} // floor = arithmetic shift
		}
		r := IMul(x, IntBig(pow2(k)))
		if ii.Signed {
			return arithRes{T: r, Ovf: inRange(r), Safe: safe, Kind: "shift"}
		}
		return arithRes{T: wrapInt(r, ii), Safe: safe, Kind: "shift"}
	case token.AND:
		if y.IsConst() && y.Val.Sign() >= 0 && !ii.Signed {
			return arithRes{T: intAndConst(x, y.Val)}
		}
		if x.IsConst() && x.Val.Sign() >= 0 && !ii.Signed {
			return arithRes{T: intAndConst(y, x.Val)}
		}
		if y.IsConst() && y.Val.Sign() >= 0 && ii.Signed {
			// two's complement: x & c == (x mod 2^W) & c for c >= 0
			return arithRes{T: intAndConst(IMod(x, IntBig(pow2(ii.W))), y.Val)}
		}
		return arithRes{Err: fmt.Errorf("int theory: & with non-constant mask")}
	case token.AND_NOT:
		if y.IsConst() && y.Val.Sign() >= 0 && !ii.Signed {
			return arithRes{T: ISub(x, intAndConst(x, y.Val))}
		}
		if y.IsConst() && y.Val.Sign() >= 0 && ii.Signed {
			// two's complement: x &^ c == x - (x & c), and x & c only looks at
			// the low bits of x mod 2^W
			return arithRes{T: ISub(x, intAndConst(IMod(x, IntBig(pow2(ii.W))), y.Val))}
		}
		return arithRes{Err: fmt.Errorf("int theory: &^ with non-constant mask")}
	case token.OR:
		if x.IsConst() && x.Val.Sign() == 0 {
			return arithRes{T: y}
		}
		if y.IsConst() && y.Val.Sign() == 0 {
			return arithRes{T: x}
		}
		if x.IsConst() && !y.IsConst() {
			x, y = y, x
		}
		if y.IsConst() && y.Val.Sign() > 0 && !ii.Signed {
			// x | c == (x &^ c) + c
			return arithRes{T: IAdd(ISub(x, intAndConst(x, y.Val)), IntBig(y.Val))}
		}
		return arithRes{Err: fmt.Errorf("int theory: | is not expressible")}
	}
	return arithRes{Err: fmt.Errorf("int theory: unsupported operator %s", op)}
}

func (a *Arith) neg(x *Term, ii intInfo) arithRes {
	if a.BV {
		return arithRes{T: BVNeg(x)}
	}
	r := ISub(IntC(0), x)
	if !ii.Signed {
		return arithRes{T: wrapInt(r, ii)}
	}
	return arithRes{T: r, Ovf: ILe(r, IntBig(ii.max()))}
}

func (a *Arith) bitnot(x *Term, ii intInfo) arithRes {
	if a.BV {
		return arithRes{T: BVNot(x)}
	}
	if ii.Signed {
		return arithRes{T: ISub(IntC(-1), x)}
	}
	return arithRes{T: ISub(IntBig(ii.max()), x)}
}

// convert between integer types (exact Go semantics in both theories).
func (a *Arith) convert(x *Term, from, to intInfo) *Term {
	if a.BV {
		switch {
		case to.W == from.W:
			return x
		case to.W < from.W:
			return BVExtract(to.W-1, 0, x)
		case from.Signed:
			return BVSignExt(to.W-from.W, x)
		default:
			return BVZeroExt(to.W-from.W, x)
		}
	}
	if x.IsConst() {
		v := x.Val
		if v.Cmp(to.min()) >= 0 && v.Cmp(to.max()) <= 0 {
			return x
		}
	}
	if from.min().Cmp(to.min()) >= 0 && from.max().Cmp(to.max()) <= 0 {
		return x
	}
	return wrapInt(x, to)
}

// toMath lifts a machine integer to a mathematical integer (contracts).
func (a *Arith) toMath(x *Term, ii intInfo) *Term {
	if !a.BV {
		return x
	}
	if x.S.W == a.MathW {
		return x
	}
	if ii.Signed {
		return BVSignExt(a.MathW-ii.W, x)
	}
	return BVZeroExt(a.MathW-ii.W, x)
}

func (a *Arith) mathC(v *big.Int) *Term {
	if a.BV {
		return BVC(v, a.MathW)
	}
	return IntBig(v)
}

var mathII = intInfo{W: 0, Signed: true} // marker: mathematical integer

func (a *Arith) mathInfo() intInfo { return intInfo{W: a.MathW, Signed: true} }

// mathBin: arithmetic on mathematical integers (no overflow in int theory;
// MathW-bit in bv theory, wide enough for the contracts that use it).
func (a *Arith) mathBin(op token.Token, x, y *Term) (*Term, error) {
	if a.BV {
		ii := a.mathInfo()
		r := a.binopBV(op, x, y, ii, ii)
		return r.T, r.Err
	}
	switch op {
	case token.ADD:
		return IAdd(x, y), nil
	case token.SUB:
		return ISub(x, y), nil
	case token.MUL:
		return IMul(x, y), nil
	case token.QUO:
		return IDiv(x, y), nil
	case token.REM:
		return IMod(x, y), nil
	case token.SHL:
		if y.IsConst() {
			return IMul(x, IntBig(pow2(int(y.Val.Int64())))), nil
		}
	case token.SHR:
		if y.IsConst() {
			return IDiv(x, IntBig(pow2(int(y.Val.Int64())))), nil
		}
	case token.AND:
		if y.IsConst() && y.Val.Sign() >= 0 {
			return intAndConst(x, y.Val), nil
		}
		if x.IsConst() && x.Val.Sign() >= 0 {
			return intAndConst(y, x.Val), nil
		}
	case token.OR:
		// x | c == (x &^ c) + c for a non-negative x
		if x.IsConst() && !y.IsConst() {
			x, y = y, x
		}
		if y.IsConst() && y.Val.Sign() >= 0 {
			return IAdd(ISub(x, intAndConst(x, y.Val)), IntBig(y.Val)), nil
		}
	}
	return nil, fmt.Errorf("int theory: operator %s not expressible in contract", op)
}
