package main

// Contract files: //gvc: directive comments (DESIGN section 3).

import (
	"bufio"
	"fmt"
	"go/ast"
	"go/parser"
	"os"
	"regexp"
	"strconv"
	"strings"
)

type Clause struct {
	Label string
	Src   string
	Expr  ast.Expr
	File  string
	Line  int
	Props []string // overrides the unit's props when non-empty
}

type LoopSpec struct {
	Invariants []*Clause
	Decreases  *Clause
	Unroll     int // >0: bounded unrolling (bounded, never counted as proved); -1: complete unroll requested
	Lets       []*LetSpec
	Modifies   []string // extra havoc targets (rare)
	BodyEnsures []*Clause // relation between head(...) and the state after one iteration
}

type LetSpec struct {
	Name string
	C    *Clause
}

type KFSpec struct {
	ID    string
	Label string // obligation label (post.<label> or inv label) the carve-out applies to
	When  *Clause
}

type Contract struct {
	Key      string // fully qualified function name (types.Func.FullName form)
	Short    string
	IsLemma  bool
	IsGuard  bool     // ownership rule of a struct field (see guard.go)
	GuardTyp string   // struct type name
	GuardFld string   // guarded field
	Allow    []string // methods that may be reached through the field by promotion
	LParams  []SpecParam // lemma parameters
	Pkg      string
	File     string
	Line     int
	Props    []string
	Theory   string // "bv" | "int" | ""
	Opts     map[string]string
	Requires []*Clause
	Ensures  []*Clause
	Modifies []string
	Loops    map[int]*LoopSpec
	Lets     []*LetSpec // evaluated at entry
	KFs      []*KFSpec
	Trusted  bool // dependency contract: assumed, never verified
	Pure     bool
	Reveal   []string
	Separate [][]string
	Sinks    []*SinkSpec
	Lemmas   []*Clause
	Params   []string // explicit parameter names (for trusted contracts whose export data lacks names)
	Results  []string
	Monitors []*SinkSpec // Pattern = owner expression text
	Grants   []*Clause   // assumed at call sites, not proved (abstract facts the unit introduces)
	LitEnsures  map[int][]*Clause // postconditions of the N-th function literal (litresult = its result)
	LitRequires map[int][]*Clause // assumptions on the parameters of the N-th function literal
	LitInvariants map[int][]*Clause // preserved by every invocation of the N-th function literal
	LitOkInvariants map[int][]*Clause // preserved by every invocation that returns a nil error
	usesCallRecords bool              // some clause reads calls()/lastarg()/lastres()
}

// SinkSpec: coarse-mode call-site rule (requires on calls matching a pattern).
type SinkSpec struct {
	Pattern string
	C       *Clause
}

type SpecParam struct {
	Name string
	Type string // bool, mathint, bytes, or a Go integer type name
}

type SpecFunc struct {
	Name   string
	Params []SpecParam
	Ret    string
	Src    string
	Body   ast.Expr
	File   string
	Line   int
	Opaque bool // body hidden unless revealed
	Cite   string
}

// PredDef: a contract-level predicate macro (expanded at use, arguments are values).
type PredDef struct {
	Name   string
	Params []string
	Body   ast.Expr
	File   string
	Line   int
}

type ContractSet struct {
	Funcs map[string]*Contract
	Specs map[string]*SpecFunc
	Preds map[string]*PredDef
	GhostGroups map[string][]string
	Ghost map[string]*GhostDecl // "TypeKey.name"
	Files []string
}

type GhostDecl struct {
	Owner string // type key, e.g. "bytes.Buffer" or "io.Reader"
	Name  string
	Type  string // int, bool, bytes, mathint
}

// expandGhost: a ghost group name stands for its members.
func (cs *ContractSet) expandGhost(g string) []string {
	if m, ok := cs.GhostGroups[g]; ok {
		return m
	}
	return []string{g}
}

func newContractSet() *ContractSet {
	return &ContractSet{Funcs: map[string]*Contract{}, Specs: map[string]*SpecFunc{}, Ghost: map[string]*GhostDecl{}}
}

var labelRe = regexp.MustCompile(`^([A-Za-z_][A-Za-z0-9_.]*):\s+(.*)$`)
var propTagRe = regexp.MustCompile(`^\[((?:C[0-9]+,?)+)\]\s*(.*)$`)

// rewriteImplies turns `a ==> b` (lowest precedence, right associative) into
// implies(a, b), recursively inside parentheses/brackets and call arguments.
func rewriteImplies(s string) string {
	// split at top-level ==>
	depth := 0
	inStr := byte(0)
	for i := 0; i < len(s); i++ {
		c := s[i]
		if inStr != 0 {
			if c == '\\' {
				i++
			} else if c == inStr {
				inStr = 0
			}
			continue
		}
		switch c {
		case '"', '\'', '`':
			inStr = c
		case '(', '[', '{':
			depth++
		case ')', ']', '}':
			depth--
		case '=':
			if depth == 0 && strings.HasPrefix(s[i:], "==>") {
				return "implies(" + rewriteImplies(s[:i]) + ", " + rewriteImplies(s[i+3:]) + ")"
			}
		}
	}
	// no top-level implication: recurse into groups, splitting by commas
	var sb strings.Builder
	i := 0
	for i < len(s) {
		c := s[i]
		if c == '"' || c == '\'' || c == '`' {
			j := i + 1
			for j < len(s) && s[j] != c {
				if s[j] == '\\' {
					j++
				}
				j++
			}
			if j >= len(s) {
				j = len(s) - 1
			}
			sb.WriteString(s[i : j+1])
			i = j + 1
			continue
		}
		if c == '(' || c == '[' {
			// find matching close
			d := 0
			j := i
			in := byte(0)
			for ; j < len(s); j++ {
				cj := s[j]
				if in != 0 {
					if cj == '\\' {
						j++
					} else if cj == in {
						in = 0
					}
					continue
				}
				if cj == '"' || cj == '\'' || cj == '`' {
					in = cj
				} else if cj == '(' || cj == '[' || cj == '{' {
					d++
				} else if cj == ')' || cj == ']' || cj == '}' {
					d--
					if d == 0 {
						break
					}
				}
			}
			if j >= len(s) {
				sb.WriteString(s[i:])
				break
			}
			inner := s[i+1 : j]
			parts := splitTopLevel(inner, ',')
			sb.WriteByte(c)
			for k, p := range parts {
				if k > 0 {
					sb.WriteByte(',')
				}
				sb.WriteString(rewriteImplies(p))
			}
			sb.WriteByte(s[j])
			i = j + 1
			continue
		}
		sb.WriteByte(c)
		i++
	}
	return sb.String()
}

func splitTopLevel(s string, sep byte) []string {
	var parts []string
	depth := 0
	in := byte(0)
	last := 0
	for i := 0; i < len(s); i++ {
		c := s[i]
		if in != 0 {
			if c == '\\' {
				i++
			} else if c == in {
				in = 0
			}
			continue
		}
		switch c {
		case '"', '\'', '`':
			in = c
		case '(', '[', '{':
			depth++
		case ')', ']', '}':
			depth--
		default:
			if c == sep && depth == 0 {
				parts = append(parts, s[last:i])
				last = i + 1
			}
		}
	}
	parts = append(parts, s[last:])
	return parts
}

func parseContractExpr(src string) (ast.Expr, error) {
	s := strings.ReplaceAll(src, ".#", ".G_")
	s = rewriteImplies(s)
	e, err := parser.ParseExpr(s)
	if err != nil {
		return nil, fmt.Errorf("%v in %q", err, s)
	}
	return e, nil
}

type rawLine struct {
	text string
	line int
}

// loadContractFile parses one file. pkgPath qualifies unqualified names
// ("" for library files, which use //gvc:package).
func (cs *ContractSet) loadContractFile(path, pkgPath string) error {
	f, err := os.Open(path)
	if err != nil {
		return err
	}
	defer f.Close()
	cs.Files = append(cs.Files, path)
	sc := bufio.NewScanner(f)
	sc.Buffer(make([]byte, 1<<20), 1<<20)
	var lines []rawLine
	n := 0
	for sc.Scan() {
		n++
		t := strings.TrimSpace(sc.Text())
		if !strings.HasPrefix(t, "//gvc:") {
			continue
		}
		lines = append(lines, rawLine{strings.TrimSpace(strings.TrimPrefix(t, "//gvc:")), n})
	}
	var cur *Contract
	trustedFile := false
	// pending clause accumulation
	type pend struct {
		kind string
		text string
		line int
		loop int
	}
	var p *pend
	flush := func() error {
		if p == nil {
			return nil
		}
		defer func() { p = nil }()
		return cs.addClause(cur, p.kind, p.loop, p.text, path, p.line)
	}
	keywords := map[string]bool{"grants": true, "props": true, "theory": true, "opt": true, "requires": true, "ensures": true,
		"modifies": true, "loop": true, "let": true, "kf": true, "trusted": true, "pure": true, "reveal": true,
		"separated": true, "sink": true, "lemma": true, "params": true, "results": true, "lit": true, "monitor": true}
	for _, rl := range lines {
		t := rl.text
		if t == "" {
			continue
		}
		word := t
		rest := ""
		if i := strings.IndexAny(t, " \t"); i >= 0 {
			word, rest = t[:i], strings.TrimSpace(t[i+1:])
		}
		switch word {
		case "package":
			if err := flush(); err != nil {
				return err
			}
			pkgPath = rest
			continue
		case "trustedfile":
			trustedFile = true
			continue
		case "func":
			if err := flush(); err != nil {
				return err
			}
			name := rest
			key := qualifyFuncName(name, pkgPath)
			cur = &Contract{Key: key, Short: name, Pkg: pkgPath, File: path, Line: rl.line,
				Opts: map[string]string{}, Loops: map[int]*LoopSpec{}, Trusted: trustedFile}
			if _, dup := cs.Funcs[key]; dup {
				return fmt.Errorf("%s:%d: duplicate contract for %s", path, rl.line, key)
			}
			cs.Funcs[key] = cur
			continue
		case "lemma":
			if err := flush(); err != nil {
				return err
			}
			key := "lemma:" + rest
			cur = &Contract{Key: key, Short: "lemma." + rest, Pkg: pkgPath, File: path, Line: rl.line,
				Opts: map[string]string{}, Loops: map[int]*LoopSpec{}, IsLemma: true}
			if _, dup := cs.Funcs[key]; dup {
				return fmt.Errorf("%s:%d: duplicate lemma %s", path, rl.line, rest)
			}
			cs.Funcs[key] = cur
			continue
		case "guard":
			// guard Type.field: only functions under contract touch the field
			if err := flush(); err != nil {
				return err
			}
			i := strings.LastIndex(rest, ".")
			if i <= 0 {
				return fmt.Errorf("%s:%d: guard wants `Type.field`", path, rl.line)
			}
			key := "guard:" + pkgPath + "." + rest
			cur = &Contract{Key: key, Short: "guard." + rest, Pkg: pkgPath, File: path, Line: rl.line, Theory: "int",
				Opts: map[string]string{}, Loops: map[int]*LoopSpec{}, IsGuard: true, GuardTyp: rest[:i], GuardFld: rest[i+1:]}
			if _, dup := cs.Funcs[key]; dup {
				return fmt.Errorf("%s:%d: duplicate guard %s", path, rl.line, rest)
			}
			cs.Funcs[key] = cur
			continue
		case "allow":
			if err := flush(); err != nil {
				return err
			}
			if cur == nil || !cur.IsGuard {
				return fmt.Errorf("%s:%d: allow outside a guard block", path, rl.line)
			}
			cur.Allow = append(cur.Allow, strings.Fields(rest)...)
			continue
		case "param":
			if err := flush(); err != nil {
				return err
			}
			fs := strings.Fields(rest)
			if cur == nil || !cur.IsLemma || len(fs) != 2 {
				return fmt.Errorf("%s:%d: param wants `name type` inside a lemma", path, rl.line)
			}
			cur.LParams = append(cur.LParams, SpecParam{fs[0], fs[1]})
			continue
		case "end":
			if err := flush(); err != nil {
				return err
			}
			cur = nil
			continue
		case "spec", "opaque", "pred":
			if err := flush(); err != nil {
				return err
			}
			cur = nil
			p = &pend{kind: word, text: rest, line: rl.line}
			continue
		case "ghost":
			if err := flush(); err != nil {
				return err
			}
			// ghost Owner.name type
			fs := strings.Fields(rest)
			if len(fs) != 2 {
				return fmt.Errorf("%s:%d: ghost wants `Owner.name type`", path, rl.line)
			}
			i := strings.LastIndex(fs[0], ".")
			owner := fs[0][:i]
			if !strings.Contains(owner, ".") && pkgPath != "" {
				owner = pkgPath + "." + owner
			}
			g := &GhostDecl{Owner: owner, Name: fs[0][i+1:], Type: fs[1]}
			cs.Ghost[owner+"."+g.Name] = g
			continue
		case "ghostgroup":
			// ghostgroup name member... : `x.#name` in modifies means all members
			if err := flush(); err != nil {
				return err
			}
			fs := strings.Fields(rest)
			if len(fs) < 2 {
				return fmt.Errorf("%s:%d: ghostgroup wants a name and members", path, rl.line)
			}
			if cs.GhostGroups == nil {
				cs.GhostGroups = map[string][]string{}
			}
			cs.GhostGroups[fs[0]] = fs[1:]
			continue
		case "cite":
			continue
		}
		if keywords[word] {
			if err := flush(); err != nil {
				return err
			}
			if cur == nil {
				return fmt.Errorf("%s:%d: %q outside a func block", path, rl.line, word)
			}
			if word == "lit" {
				// lit N requires expr : assumption on the parameters of the N-th function literal
				fs := strings.SplitN(rest, " ", 3)
				num, err := strconv.Atoi(fs[0])
				if len(fs) < 3 || err != nil || (fs[1] != "requires" && fs[1] != "ensures" && fs[1] != "invariant" && fs[1] != "okinvariant") {
					return fmt.Errorf("%s:%d: lit wants `N requires|ensures|invariant expr`", path, rl.line)
				}
				p = &pend{kind: "lit." + fs[1], text: strings.TrimSpace(fs[2]), line: rl.line, loop: num}
			} else if word == "loop" {
				fs := strings.SplitN(rest, " ", 3)
				if len(fs) < 3 {
					return fmt.Errorf("%s:%d: loop wants `N kind expr`", path, rl.line)
				}
				num, err := strconv.Atoi(fs[0])
				if err != nil {
					return fmt.Errorf("%s:%d: bad loop ordinal", path, rl.line)
				}
				p = &pend{kind: "loop." + fs[1], text: strings.TrimSpace(fs[2]), line: rl.line, loop: num}
			} else {
				p = &pend{kind: word, text: rest, line: rl.line}
			}
			continue
		}
		// continuation
		if p == nil {
			return fmt.Errorf("%s:%d: unexpected directive %q", path, rl.line, t)
		}
		p.text += " " + t
	}
	return flush()
}

func qualifyFuncName(name, pkg string) string {
	// forms: Func | (*T).M | (T).M | T.M | pkg.Func (library)
	if pkg == "" {
		return name
	}
	if strings.HasPrefix(name, "field:") {
		return "field:" + pkg + "." + strings.TrimPrefix(name, "field:")
	}
	if strings.HasPrefix(name, "(*") {
		i := strings.Index(name, ")")
		return "(*" + pkg + "." + name[2:i] + ")" + name[i+1:]
	}
	if strings.HasPrefix(name, "(") {
		i := strings.Index(name, ")")
		return "(" + pkg + "." + name[1:i] + ")" + name[i+1:]
	}
	if i := strings.Index(name, "."); i >= 0 && !strings.Contains(name, "$") {
		// T.M  (value receiver or interface method)
		return "(" + pkg + "." + name[:i] + ")" + name[i:]
	}
	if i := strings.Index(name, "."); i >= 0 && strings.Contains(name, "$") && strings.Index(name, "$") > i {
		return "(" + pkg + "." + name[:i] + ")" + name[i:]
	}
	return pkg + "." + name
}

func (cs *ContractSet) mkClause(text, file string, line int) (*Clause, error) {
	c := &Clause{File: file, Line: line}
	if m := propTagRe.FindStringSubmatch(text); m != nil {
		c.Props = strings.Split(strings.TrimSuffix(m[1], ","), ",")
		text = m[2]
	}
	if m := labelRe.FindStringSubmatch(text); m != nil {
		c.Label = m[1]
		text = m[2]
	}
	c.Src = text
	e, err := parseContractExpr(text)
	if err != nil {
		return nil, fmt.Errorf("%s:%d: %v", file, line, err)
	}
	c.Expr = e
	return c, nil
}

var specHeadRe = regexp.MustCompile(`^([A-Za-z_][A-Za-z0-9_]*)\(([^)]*)\)\s*([A-Za-z0-9_]+)\s*(?:=\s*(.*))?$`)

func (cs *ContractSet) addClause(cur *Contract, kind string, loop int, text, file string, line int) error {
	if cur != nil && (strings.Contains(text, "calls(") || strings.Contains(text, "lastarg(") || strings.Contains(text, "lastres(")) {
		cur.usesCallRecords = true
	}
	switch kind {
	case "pred":
		// pred name(a, b) = expr : a contract-level macro over values
		i := strings.Index(text, "=")
		op := strings.Index(text, "(")
		cp := strings.Index(text, ")")
		if i < 0 || op < 0 || cp < op || cp > i {
			return fmt.Errorf("%s:%d: pred wants name(params) = expr", file, line)
		}
		pd := &PredDef{Name: strings.TrimSpace(text[:op]), File: file, Line: line}
		for _, a := range strings.Split(text[op+1:cp], ",") {
			if a = strings.TrimSpace(a); a != "" {
				pd.Params = append(pd.Params, a)
			}
		}
		e, err := parseContractExpr(strings.TrimSpace(text[i+1:]))
		if err != nil {
			return fmt.Errorf("%s:%d: %v", file, line, err)
		}
		pd.Body = e
		if cs.Preds == nil {
			cs.Preds = map[string]*PredDef{}
		}
		cs.Preds[pd.Name] = pd
		return nil
	case "spec", "opaque":
		m := specHeadRe.FindStringSubmatch(text)
		if m == nil {
			return fmt.Errorf("%s:%d: bad spec header %q", file, line, text)
		}
		sf := &SpecFunc{Name: m[1], Ret: m[3], Src: m[4], File: file, Line: line, Opaque: kind == "opaque"}
		if strings.TrimSpace(m[2]) != "" {
			for _, ps := range strings.Split(m[2], ",") {
				fs := strings.Fields(ps)
				if len(fs) != 2 {
					return fmt.Errorf("%s:%d: bad spec param %q", file, line, ps)
				}
				sf.Params = append(sf.Params, SpecParam{fs[0], fs[1]})
			}
		}
		if m[4] != "" {
			e, err := parseContractExpr(m[4])
			if err != nil {
				return fmt.Errorf("%s:%d: %v", file, line, err)
			}
			sf.Body = e
		}
		if _, dup := cs.Specs[sf.Name]; dup {
			return fmt.Errorf("%s:%d: duplicate spec %s", file, line, sf.Name)
		}
		cs.Specs[sf.Name] = sf
		return nil
	}
	if cur == nil {
		return fmt.Errorf("%s:%d: clause outside func", file, line)
	}
	getLoop := func() *LoopSpec {
		ls := cur.Loops[loop]
		if ls == nil {
			ls = &LoopSpec{}
			cur.Loops[loop] = ls
		}
		return ls
	}
	switch kind {
	case "props":
		cur.Props = strings.Fields(text)
	case "theory":
		cur.Theory = strings.TrimSpace(text)
	case "opt":
		fs := strings.Fields(text)
		if len(fs) == 1 {
			cur.Opts[fs[0]] = "true"
		} else if len(fs) >= 2 {
			cur.Opts[fs[0]] = strings.Join(fs[1:], " ")
		}
	case "trusted":
		cur.Trusted = true
	case "pure":
		cur.Pure = true
	case "params":
		cur.Params = strings.Fields(text)
	case "results":
		cur.Results = strings.Fields(text)
	case "reveal":
		cur.Reveal = append(cur.Reveal, strings.Fields(text)...)
	case "separated":
		cur.Separate = append(cur.Separate, strings.Fields(text))
	case "modifies":
		for _, m := range splitTopLevel(text, ',') {
			cur.Modifies = append(cur.Modifies, strings.TrimSpace(m))
		}
	case "requires", "ensures", "lemma", "grants":
		c, err := cs.mkClause(text, file, line)
		if err != nil {
			return err
		}
		switch kind {
		case "requires":
			if c.Label == "" {
				c.Label = fmt.Sprintf("r%d", len(cur.Requires)+1)
			}
			cur.Requires = append(cur.Requires, c)
		case "ensures":
			if c.Label == "" {
				c.Label = fmt.Sprintf("e%d", len(cur.Ensures)+1)
			}
			cur.Ensures = append(cur.Ensures, c)
		case "lemma":
			cur.Lemmas = append(cur.Lemmas, c)
		case "grants":
			// assumed by callers like an ensures clause, never proved in the
			// unit: introduces an abstract (taint / typestate) fact
			if c.Label == "" {
				c.Label = fmt.Sprintf("g%d", len(cur.Grants)+1)
			}
			cur.Grants = append(cur.Grants, c)
		}
	case "let":
		i := strings.Index(text, "=")
		if i < 0 {
			return fmt.Errorf("%s:%d: let wants name = expr", file, line)
		}
		c, err := cs.mkClause(strings.TrimSpace(text[i+1:]), file, line)
		if err != nil {
			return err
		}
		cur.Lets = append(cur.Lets, &LetSpec{Name: strings.TrimSpace(text[:i]), C: c})
	case "kf":
		// kf <ID> <label>: <expr>
		fs := strings.SplitN(text, " ", 2)
		if len(fs) != 2 {
			return fmt.Errorf("%s:%d: kf wants `ID label: expr`", file, line)
		}
		c, err := cs.mkClause(fs[1], file, line)
		if err != nil {
			return err
		}
		cur.KFs = append(cur.KFs, &KFSpec{ID: fs[0], Label: c.Label, When: c})
	case "monitor":
		// monitor <owner> invariant <expr> : the object <owner> is protected by
		// its mutex; the invariant holds whenever the mutex is free
		i := strings.Index(text, " invariant ")
		if i < 0 {
			return fmt.Errorf("%s:%d: monitor wants `owner invariant expr`", file, line)
		}
		c, err := cs.mkClause(strings.TrimSpace(text[i+11:]), file, line)
		if err != nil {
			return err
		}
		if c.Label == "" {
			c.Label = fmt.Sprintf("m%d", len(cur.Monitors)+1)
		}
		cur.Monitors = append(cur.Monitors, &SinkSpec{Pattern: strings.TrimSpace(text[:i]), C: c})
	case "sink":
		// sink <pattern> requires <expr>
		i := strings.Index(text, " requires ")
		if i < 0 {
			return fmt.Errorf("%s:%d: sink wants `pattern requires expr`", file, line)
		}
		c, err := cs.mkClause(strings.TrimSpace(text[i+10:]), file, line)
		if err != nil {
			return err
		}
		cur.Sinks = append(cur.Sinks, &SinkSpec{Pattern: strings.TrimSpace(text[:i]), C: c})
	case "loop.invariant":
		c, err := cs.mkClause(text, file, line)
		if err != nil {
			return err
		}
		ls := getLoop()
		if c.Label == "" {
			c.Label = fmt.Sprintf("i%d", len(ls.Invariants)+1)
		}
		ls.Invariants = append(ls.Invariants, c)
	case "lit.ensures":
		c, err := cs.mkClause(text, file, line)
		if err != nil {
			return err
		}
		if c.Label == "" {
			c.Label = fmt.Sprintf("l%d", loop)
		}
		if cur.LitEnsures == nil {
			cur.LitEnsures = map[int][]*Clause{}
		}
		cur.LitEnsures[loop] = append(cur.LitEnsures[loop], c)
	case "lit.invariant":
		// preserved by every invocation of the callback: holds at the call,
		// assumed on entry to the literal and after the call, proved at the
		// literal's returns
		c, err := cs.mkClause(text, file, line)
		if err != nil {
			return err
		}
		if c.Label == "" {
			c.Label = fmt.Sprintf("li%d", loop)
		}
		if cur.LitInvariants == nil {
			cur.LitInvariants = map[int][]*Clause{}
		}
		cur.LitInvariants[loop] = append(cur.LitInvariants[loop], c)
	case "lit.okinvariant":
		// like lit.invariant, but only invocations that return a nil error
		// have to preserve it, and it is assumed after the call only when the
		// call itself returned a nil error (the callee is assumed to return
		// nil only if every invocation of the callback did)
		c, err := cs.mkClause(text, file, line)
		if err != nil {
			return err
		}
		if c.Label == "" {
			c.Label = fmt.Sprintf("lo%d", loop)
		}
		if cur.LitOkInvariants == nil {
			cur.LitOkInvariants = map[int][]*Clause{}
		}
		cur.LitOkInvariants[loop] = append(cur.LitOkInvariants[loop], c)
	case "lit.requires":
		c, err := cs.mkClause(text, file, line)
		if err != nil {
			return err
		}
		if cur.LitRequires == nil {
			cur.LitRequires = map[int][]*Clause{}
		}
		cur.LitRequires[loop] = append(cur.LitRequires[loop], c)
	case "loop.step":
		c, err := cs.mkClause(text, file, line)
		if err != nil {
			return err
		}
		ls := getLoop()
		if c.Label == "" {
			c.Label = fmt.Sprintf("s%d", len(ls.BodyEnsures)+1)
		}
		ls.BodyEnsures = append(ls.BodyEnsures, c)
	case "loop.decreases":
		c, err := cs.mkClause(text, file, line)
		if err != nil {
			return err
		}
		getLoop().Decreases = c
	case "loop.unroll":
		if strings.TrimSpace(text) == "complete" {
			getLoop().Unroll = -1
		} else {
			k, err := strconv.Atoi(strings.TrimSpace(text))
			if err != nil {
				return fmt.Errorf("%s:%d: bad unroll bound", file, line)
			}
			getLoop().Unroll = k
		}
	case "loop.let":
		i := strings.Index(text, "=")
		if i < 0 {
			return fmt.Errorf("%s:%d: loop let wants name = expr", file, line)
		}
		c, err := cs.mkClause(strings.TrimSpace(text[i+1:]), file, line)
		if err != nil {
			return err
		}
		ls := getLoop()
		ls.Lets = append(ls.Lets, &LetSpec{Name: strings.TrimSpace(text[:i]), C: c})
	case "loop.modifies":
		ls := getLoop()
		ls.Modifies = append(ls.Modifies, strings.Fields(text)...)
	default:
		return fmt.Errorf("%s:%d: unknown clause kind %q", file, line, kind)
	}
	return nil
}
