package main

// Symbolic values, layouts, state.

import (
	"fmt"
	"go/types"
	"sort"
	"strings"
)

type Value interface{}

// Sc: scalar (bool, integer, pointer/interface/error id).
type Sc struct{ T *Term }

// Sl: slice or string. With Reg != nil the contents live in State.regs
// (mutable, alias-tracked by static region); otherwise Comp is a snapshot.
type Sl struct {
	Reg  *Region
	Comp []*Term // per element component: Array idx compSort
	Off  *Term
	Len  *Term
	Nil  *Term // Bool; strings: False
	Str  bool
	Cap  *Term // capacity when known (three-index slices, make); nil: unknown, >= Len
}

// St: struct value (by value).
type St struct {
	Fields []Value
}

// Ar: fixed-size array, value semantics.
type Ar struct {
	Comp []*Term
	N    int64
}

// Bx: a local variable whose address was taken: it lives in the heap at P
// (reads and writes of the variable go through the heap, so they alias *P).
type Bx struct{ P *Term }

// Tu: tuple of results.
type Tu struct{ Vs []Value }

// Opq: a value the engine does not model.
type Opq struct{ Why string }

// Fv: function value (closure over the defining state).
type Fv struct {
	Lit  interface{} // *ast.FuncLit
	Name string
}

type Region struct {
	Name string
	ID   int
}

type comp struct {
	Suffix string
	S      *Sort
}

type State struct {
	vars    map[*types.Var]Value
	regs    map[*Region][]*Term
	heap    map[string]*Term // heap field / ghost arrays: key -> Array Int compSort
	assume  []*Term
	ghosts  map[string]Value // named ghost/let bindings
	defers  []deferred
	allocN  *Term // unused
	imprec  []string
	retVals []Value
	epoch   int            // heap epoch: unmaterialised keys read as H<epoch>:key
	hv      map[string]int // per-key havoc epochs (key or key prefix)
}

type deferred struct {
	run func(st *State) []*State
}

func newState() *State {
	return &State{vars: map[*types.Var]Value{}, regs: map[*Region][]*Term{}, heap: map[string]*Term{}, ghosts: map[string]Value{}, hv: map[string]int{}}
}

func (s *State) clone() *State {
	n := &State{
		vars:   make(map[*types.Var]Value, len(s.vars)),
		regs:   make(map[*Region][]*Term, len(s.regs)),
		heap:   make(map[string]*Term, len(s.heap)),
		ghosts: make(map[string]Value, len(s.ghosts)),
		allocN: s.allocN,
		epoch:  s.epoch,
		hv:     make(map[string]int, len(s.hv)),
	}
	for k, v := range s.hv {
		n.hv[k] = v
	}
	for k, v := range s.vars {
		n.vars[k] = v
	}
	for k, v := range s.regs {
		n.regs[k] = v
	}
	for k, v := range s.heap {
		n.heap[k] = v
	}
	for k, v := range s.ghosts {
		n.ghosts[k] = v
	}
	n.assume = append([]*Term(nil), s.assume...)
	n.defers = append([]deferred(nil), s.defers...)
	n.imprec = append([]string(nil), s.imprec...)
	return n
}

func (s *State) add(t *Term) {
	if t == nil || t.IsTrue() {
		return
	}
	s.assume = append(s.assume, t)
}

// ---- layouts

func (x *Exec) scalarSort(t types.Type) (*Sort, bool) {
	if isBoolType(t) {
		return BoolSort, true
	}
	if ii, ok := intInfoOf(t); ok {
		return x.ar.sortOfInt(ii), true
	}
	switch u := t.Underlying().(type) {
	case *types.Pointer, *types.Interface, *types.Signature, *types.Map, *types.Chan:
		_ = u
		return IntSort, true
	case *types.Basic:
		if u.Kind() == types.UnsafePointer || u.Kind() == types.UntypedNil {
			return IntSort, true
		}
		if u.Info()&types.IsFloat != 0 {
			return IntSort, true // opaque token
		}
	}
	return nil, false
}

func (x *Exec) layout(t types.Type) []comp {
	key := t.String()
	if l, ok := x.layouts[key]; ok {
		return l
	}
	var out []comp
	if s, ok := x.scalarSort(t); ok {
		out = []comp{{"", s}}
	} else if isStringType(t) {
		idx := x.ar.idxSort()
		out = []comp{{".arr", ArrSort(idx, x.ar.sortOfInt(intInfo{8, false}))}, {".off", idx}, {".len", idx}}
	} else {
		switch u := t.Underlying().(type) {
		case *types.Slice:
			idx := x.ar.idxSort()
			for _, c := range x.layout(u.Elem()) {
				out = append(out, comp{".e" + c.Suffix, ArrSort(idx, c.S)})
			}
			out = append(out, comp{".off", idx}, comp{".len", idx}, comp{".nil", BoolSort})
		case *types.Array:
			idx := x.ar.idxSort()
			for _, c := range x.layout(u.Elem()) {
				out = append(out, comp{".e" + c.Suffix, ArrSort(idx, c.S)})
			}
		case *types.Struct:
			for i := 0; i < u.NumFields(); i++ {
				f := u.Field(i)
				for _, c := range x.layout(f.Type()) {
					out = append(out, comp{"." + f.Name() + c.Suffix, c.S})
				}
			}
		case *types.Tuple:
			for i := 0; i < u.Len(); i++ {
				for _, c := range x.layout(u.At(i).Type()) {
					out = append(out, comp{fmt.Sprintf(".%d%s", i, c.Suffix), c.S})
				}
			}
		default:
			out = []comp{{"", IntSort}}
		}
	}
	x.layouts[key] = out
	return out
}

// flatten a value into its component terms. Region-backed slices are
// snapshotted from st.
func (x *Exec) flatten(st *State, t types.Type, v Value) []*Term {
	switch v := v.(type) {
	case Sc:
		return []*Term{v.T}
	case Sl:
		comps := v.Comp
		if v.Reg != nil {
			comps = st.regs[v.Reg]
		}
		out := append([]*Term(nil), comps...)
		out = append(out, v.Off, v.Len)
		if !v.Str {
			out = append(out, v.Nil)
		}
		return out
	case Ar:
		return append([]*Term(nil), v.Comp...)
	case St:
		u := t.Underlying().(*types.Struct)
		var out []*Term
		for i, f := range v.Fields {
			out = append(out, x.flatten(st, u.Field(i).Type(), f)...)
		}
		return out
	case Tu:
		u := t.(*types.Tuple)
		var out []*Term
		for i, f := range v.Vs {
			out = append(out, x.flatten(st, u.At(i).Type(), f)...)
		}
		return out
	case Opq, Fv:
		l := x.layout(t)
		out := make([]*Term, len(l))
		for i, c := range l {
			out[i] = x.freshTerm("opq", c.S)
		}
		return out
	}
	panic(fmt.Sprintf("flatten: unexpected value %T for %s", v, t))
}

func (x *Exec) unflatten(t types.Type, ts []*Term) Value {
	v, rest := x.unflat(t, ts)
	if len(rest) != 0 {
		panic("unflatten: leftover components for " + t.String())
	}
	return v
}

func (x *Exec) unflat(t types.Type, ts []*Term) (Value, []*Term) {
	if _, ok := x.scalarSort(t); ok {
		return Sc{ts[0]}, ts[1:]
	}
	if isStringType(t) {
		return Sl{Comp: ts[:1], Off: ts[1], Len: ts[2], Nil: False, Str: true}, ts[3:]
	}
	switch u := t.Underlying().(type) {
	case *types.Slice:
		n := len(x.layout(u.Elem()))
		return Sl{Comp: ts[:n], Off: ts[n], Len: ts[n+1], Nil: ts[n+2]}, ts[n+3:]
	case *types.Array:
		n := len(x.layout(u.Elem()))
		return Ar{Comp: ts[:n], N: u.Len()}, ts[n:]
	case *types.Struct:
		sv := St{}
		for i := 0; i < u.NumFields(); i++ {
			var f Value
			f, ts = x.unflat(u.Field(i).Type(), ts)
			sv.Fields = append(sv.Fields, f)
		}
		return sv, ts
	case *types.Tuple:
		tv := Tu{}
		for i := 0; i < u.Len(); i++ {
			var f Value
			f, ts = x.unflat(u.At(i).Type(), ts)
			tv.Vs = append(tv.Vs, f)
		}
		return tv, ts
	}
	return Sc{ts[0]}, ts[1:]
}

func (x *Exec) freshTerm(hint string, s *Sort) *Term {
	x.freshN++
	hint = strings.Map(func(r rune) rune {
		if r >= 'a' && r <= 'z' || r >= 'A' && r <= 'Z' || r >= '0' && r <= '9' || r == '_' || r == '.' {
			return r
		}
		return '_'
	}, hint)
	return Var(fmt.Sprintf("%s!%d", hint, x.freshN), s)
}

// typeFacts: invariants of a well-typed Go value with these components.
func (x *Exec) typeFacts(t types.Type, v Value) *Term {
	switch v := v.(type) {
	case Sc:
		if ii, ok := intInfoOf(t); ok {
			return x.ar.rangeFact(v.T, ii)
		}
		if isRefType(t) && v.T.S.Kind == SInt && preStateTerm(v.T) {
			// an object reachable in the heap as it was on entry was allocated
			// before the call: it is not one this unit allocates (see alloc)
			return ILe(v.T, allocFrontier)
		}
		return True
	case Sl:
		zero := x.ar.idxC(0)
		ii := intInfo{64, true}
		f := And(x.ar.le(zero, v.Off, ii), x.ar.le(zero, v.Len, ii))
		// keep off+len within a sane bound so index arithmetic cannot wrap
		lim := x.ar.idxC(1 << 62)
		f = And(f, x.ar.le(v.Off, lim, ii), x.ar.le(v.Len, lim, ii))
		if !v.Str {
			f = And(f, Implies(v.Nil, Eq(v.Len, zero)))
		}
		return f
	case St:
		u := t.Underlying().(*types.Struct)
		var fs []*Term
		for i, fv := range v.Fields {
			fs = append(fs, x.typeFacts(u.Field(i).Type(), fv))
		}
		return And(fs...)
	case Tu:
		u := t.(*types.Tuple)
		var fs []*Term
		for i, fv := range v.Vs {
			fs = append(fs, x.typeFacts(u.At(i).Type(), fv))
		}
		return And(fs...)
	}
	return True
}

// allocFrontier: the largest object identity in use when the unit is entered.
var allocFrontier = Var("alloc0", IntSort)

// frontier: the largest object identity allocated so far on this path (the
// entry frontier plus whatever this unit and its callees allocated).
func (x *Exec) frontier(st *State) *Term {
	if f, ok := st.ghosts["$frontier"].(Sc); ok {
		return f.T
	}
	return allocFrontier
}

// bumpFrontier: unknown code (a callee, earlier loop iterations) may have
// allocated: the frontier moves to an unknown, not smaller, identity.
func (x *Exec) bumpFrontier(st *State) {
	old := x.frontier(st)
	nf := x.freshTerm("frontier", IntSort)
	st.add(ILe(old, nf))
	st.ghosts["$frontier"] = Sc{nf}
}

var allocMention = map[*Term]bool{}

// mentionsAllocFrontier: t speaks about the allocation frontier (memoised).
func mentionsAllocFrontier(t *Term) bool {
	if v, ok := allocMention[t]; ok {
		return v
	}
	r := false
	if t.Op == "var" {
		r = t.Name == "alloc0" || strings.HasPrefix(t.Name, "frontier!")
	} else {
		for _, a := range t.Args {
			if mentionsAllocFrontier(a) {
				r = true
				break
			}
		}
	}
	allocMention[t] = r
	return r
}

// isTypeFactForall: a quantified type fact produced by closeFacts (its bound
// variable carries the canonical tf!k name).
func isTypeFactForall(t *Term) bool {
	return t.Op == "forall" && len(t.Bound) == 1 && strings.HasPrefix(t.Bound[0].Name, "tf!k")
}

// arraySyms collects the names of the array-sorted variables of t.
func arraySyms(t *Term, out map[string]bool) {
	if t.Op == "var" {
		if t.S != nil && t.S.Kind == SArr {
			out[t.Name] = true
		}
		return
	}
	for _, a := range t.Args {
		arraySyms(a, out)
	}
}

// dropAllocConjuncts removes the conjuncts of t that mention the allocation
// frontier (nil when nothing is left).
func dropAllocConjuncts(t *Term) *Term {
	if !mentionsAllocFrontier(t) {
		return t
	}
	if t.Op == "=>" && len(t.Args) == 2 && !mentionsAllocFrontier(t.Args[0]) {
		// guarded facts of a merged branch
		if k := dropAllocConjuncts(t.Args[1]); k != nil {
			return Implies(t.Args[0], k)
		}
		return nil
	}
	if t.Op != "and" {
		return nil
	}
	var keep []*Term
	for _, a := range t.Args {
		if k := dropAllocConjuncts(a); k != nil {
			keep = append(keep, k)
		}
	}
	if len(keep) == 0 {
		return nil
	}
	return And(keep...)
}

func isRefType(t types.Type) bool {
	switch t.Underlying().(type) {
	case *types.Pointer, *types.Map, *types.Chan:
		return true
	}
	return false
}

// preStateTerm: t is read out of a heap array as it was on entry (a chain of
// selects rooted at an H0:... array, with no store in between).
func preStateTerm(t *Term) bool {
	for t.Op == "select" && len(t.Args) == 2 {
		t = t.Args[0]
	}
	return t.Op == "var" && strings.HasPrefix(t.Name, "H0:") && !strings.HasPrefix(t.Name, "H0:ghost:") && !strings.HasPrefix(t.Name, "H0:map:")
}

// fresh creates an unconstrained well-typed value.
func (x *Exec) fresh(st *State, t types.Type, hint string) Value {
	l := x.layout(t)
	ts := make([]*Term, len(l))
	for i, c := range l {
		ts[i] = x.freshTerm(hint+c.Suffix, c.S)
	}
	v := x.unflatten(t, ts)
	st.add(x.typeFacts(t, v))
	return v
}

// zero value of a type.
func (x *Exec) zero(t types.Type) Value {
	l := x.layout(t)
	ts := make([]*Term, len(l))
	for i, c := range l {
		ts[i] = x.zeroOfSort(c.S, c.Suffix)
	}
	return x.unflatten(t, ts)
}

func (x *Exec) zeroOfSort(s *Sort, suffix string) *Term {
	switch s.Kind {
	case SBool:
		if strings.HasSuffix(suffix, ".nil") {
			return True
		}
		return False
	case SInt:
		return IntC(0)
	case SBV:
		return BVC64(0, s.W)
	case SArr:
		return ConstArr(s, x.zeroOfSort(s.Elem, ""))
	}
	panic("zeroOfSort")
}

// ite-merge of two values of the same type.
func (x *Exec) mergeVal(c *Term, t types.Type, a, b Value, sa, sb *State) (Value, bool) {
	switch av := a.(type) {
	case Sc:
		bv, ok := b.(Sc)
		if !ok {
			return nil, false
		}
		if !av.T.S.Eq(bv.T.S) {
			return nil, false
		}
		return Sc{Ite(c, av.T, bv.T)}, true
	case Sl:
		bv, ok := b.(Sl)
		if !ok {
			return nil, false
		}
		if av.Reg != nil && av.Reg == bv.Reg {
			return Sl{Reg: av.Reg, Off: Ite(c, av.Off, bv.Off), Len: Ite(c, av.Len, bv.Len), Nil: Ite(c, av.Nil, bv.Nil), Str: av.Str}, true
		}
		ca, cb := av.Comp, bv.Comp
		if av.Reg != nil {
			ca = sa.regs[av.Reg]
		}
		if bv.Reg != nil {
			cb = sb.regs[bv.Reg]
		}
		if len(ca) != len(cb) {
			return nil, false
		}
		out := Sl{Off: Ite(c, av.Off, bv.Off), Len: Ite(c, av.Len, bv.Len), Nil: Ite(c, av.Nil, bv.Nil), Str: av.Str}
		for i := range ca {
			out.Comp = append(out.Comp, Ite(c, ca[i], cb[i]))
		}
		return out, true
	case Ar:
		bv, ok := b.(Ar)
		if !ok || len(av.Comp) != len(bv.Comp) {
			return nil, false
		}
		out := Ar{N: av.N}
		for i := range av.Comp {
			out.Comp = append(out.Comp, Ite(c, av.Comp[i], bv.Comp[i]))
		}
		return out, true
	case St:
		bv, ok := b.(St)
		if !ok || len(av.Fields) != len(bv.Fields) {
			return nil, false
		}
		u, ok := t.Underlying().(*types.Struct)
		if !ok {
			return nil, false
		}
		out := St{}
		for i := range av.Fields {
			m, ok := x.mergeVal(c, u.Field(i).Type(), av.Fields[i], bv.Fields[i], sa, sb)
			if !ok {
				return nil, false
			}
			out.Fields = append(out.Fields, m)
		}
		return out, true
	case Opq:
		return av, true
	case Fv:
		if bv, ok := b.(Fv); ok && bv.Lit == av.Lit {
			return av, true
		}
		return nil, false
	}
	return nil, false
}

// mergeStates joins two states that share a common prefix of assumptions.
// ca is the condition under which a was taken (b under !ca).
func (x *Exec) mergeStates(ca *Term, a, b *State) (*State, bool) {
	if len(a.defers) != len(b.defers) {
		return nil, false
	}
	out := a.clone()
	// variables
	for k, va := range a.vars {
		vb, ok := b.vars[k]
		if !ok {
			delete(out.vars, k)
			continue
		}
		if sameValue(va, vb) {
			continue
		}
		m, ok := x.mergeVal(ca, k.Type(), va, vb, a, b)
		if !ok {
			return nil, false
		}
		out.vars[k] = m
	}
	isRec := func(k string) bool { return strings.HasPrefix(k, "$arg") || strings.HasPrefix(k, "$res:") }
	for k, vb := range b.ghosts {
		// call records (see trace.go): an absent counter is zero, an absent
		// last argument / result is unknown
		if _, inA := a.ghosts[k]; !inA {
			if sb, ok := vb.(Sc); ok {
				if strings.HasPrefix(k, "$calls:") {
					out.ghosts[k] = Sc{Ite(ca, x.ar.mathC(newBig(0)), sb.T)}
				} else if isRec(k) {
					out.ghosts[k] = Sc{Ite(ca, x.freshTerm("norec", sb.T.S), sb.T)}
				}
			}
		}
	}
	for k, va := range a.ghosts {
		vb, ok := b.ghosts[k]
		if !ok && strings.HasPrefix(k, "$calls:") {
			vb, ok = Sc{x.ar.mathC(newBig(0))}, true
		}
		if sa, isSc := va.(Sc); !ok && isSc && isRec(k) {
			vb, ok = Sc{x.freshTerm("norec", sa.T.S)}, true
		}
		if !ok {
			delete(out.ghosts, k)
			continue
		}
		if sameValue(va, vb) {
			continue
		}
		sa, ok1 := va.(Sc)
		sb, ok2 := vb.(Sc)
		if !ok1 || !ok2 {
			return nil, false
		}
		out.ghosts[k] = Sc{Ite(ca, sa.T, sb.T)}
	}
	for r, ta := range a.regs {
		tb, ok := b.regs[r]
		if !ok {
			continue
		}
		nt := make([]*Term, len(ta))
		for i := range ta {
			nt[i] = Ite(ca, ta[i], tb[i])
		}
		out.regs[r] = nt
	}
	for r, tb := range b.regs {
		if _, ok := a.regs[r]; !ok {
			out.regs[r] = tb
		}
	}
	keys := map[string]bool{}
	for k := range a.heap {
		keys[k] = true
	}
	for k := range b.heap {
		keys[k] = true
	}
	for k := range keys {
		ta, oka := a.heap[k]
		tb, okb := b.heap[k]
		switch {
		case oka && okb:
			out.heap[k] = Ite(ca, ta, tb)
		case oka:
			// b never touched it: its value is the initial array
			out.heap[k] = Ite(ca, ta, x.heapInit(b, k, ta.S))
		case okb:
			out.heap[k] = Ite(ca, x.heapInit(a, k, tb.S), tb)
		}
	}
	if !sameEpochs(a, b) {
		// unmaterialised keys may differ between the branches: forget them
		out.epoch = x.nextEpoch()
		out.hv = map[string]int{}
	}
	// assumptions: common prefix + guarded remainders
	n := 0
	for n < len(a.assume) && n < len(b.assume) && a.assume[n] == b.assume[n] {
		n++
	}
	out.assume = append([]*Term(nil), a.assume[:n]...)
	ra := And(a.assume[n:]...)
	rb := And(b.assume[n:]...)
	out.add(Implies(ca, ra))
	out.add(Implies(Not(ca), rb))
	seen := map[string]bool{}
	out.imprec = nil
	for _, s := range append(append([]string(nil), a.imprec...), b.imprec...) {
		if !seen[s] {
			seen[s] = true
			out.imprec = append(out.imprec, s)
		}
	}
	return out, true
}

func sameValue(a, b Value) bool {
	switch av := a.(type) {
	case Sc:
		bv, ok := b.(Sc)
		return ok && av.T == bv.T
	case Sl:
		bv, ok := b.(Sl)
		if !ok || av.Reg != bv.Reg || av.Off != bv.Off || av.Len != bv.Len || av.Nil != bv.Nil || len(av.Comp) != len(bv.Comp) {
			return false
		}
		for i := range av.Comp {
			if av.Comp[i] != bv.Comp[i] {
				return false
			}
		}
		return true
	case Ar:
		bv, ok := b.(Ar)
		if !ok || len(av.Comp) != len(bv.Comp) {
			return false
		}
		for i := range av.Comp {
			if av.Comp[i] != bv.Comp[i] {
				return false
			}
		}
		return true
	case St:
		bv, ok := b.(St)
		if !ok || len(av.Fields) != len(bv.Fields) {
			return false
		}
		for i := range av.Fields {
			if !sameValue(av.Fields[i], bv.Fields[i]) {
				return false
			}
		}
		return true
	case Opq:
		_, ok := b.(Opq)
		return ok
	case Fv:
		bv, ok := b.(Fv)
		return ok && bv.Lit == av.Lit
	case Bx:
		bv, ok := b.(Bx)
		return ok && bv.P == av.P
	}
	return false
}

func sameEpochs(a, b *State) bool {
	if a.epoch != b.epoch || len(a.hv) != len(b.hv) {
		return false
	}
	for k, v := range a.hv {
		if b.hv[k] != v {
			return false
		}
	}
	return true
}

// heapInit is the content of a heap array that st has not touched since its
// last havoc (epoch 0 = function entry).
func (x *Exec) heapInit(st *State, key string, s *Sort) *Term {
	ep := st.epoch
	for k, e := range st.hv {
		if (k == key || strings.HasPrefix(key, k+".")) && e > ep {
			ep = e
		}
	}
	return Var(fmt.Sprintf("H%d:%s", ep, key), s)
}

func (x *Exec) heapGet(st *State, key string, s *Sort) *Term {
	if t, ok := st.heap[key]; ok {
		return t
	}
	t := x.heapInit(st, key, s)
	st.heap[key] = t
	return t
}

func sortedKeys(m map[string]*Term) []string {
	var ks []string
	for k := range m {
		ks = append(ks, k)
	}
	sort.Strings(ks)
	return ks
}

// nameLet binds a let value to a fresh symbol with a defining equation when
// it is a non-trivial scalar, so that later quantifier patterns mention a
// variable instead of the (possibly ite-laden) defining expression.
func (x *Exec) nameLet(st *State, name string, v Value) Value {
	sc, ok := v.(Sc)
	if !ok || sc.T.Op == "var" || sc.T.Op == "const" || sc.T.Op == "true" || sc.T.Op == "false" {
		return v
	}
	if sc.T.S.Kind == SArr {
		return v
	}
	f := x.freshTerm("let_"+name, sc.T.S)
	st.add(Eq(f, sc.T))
	return Sc{f}
}

// hasPrefix: p is a prefix (or suffix) of s, over absolute positions of s's
// backing array (DESIGN 2.3 quantifier hygiene). Constant-length p unrolls.
func (x *Exec) hasPrefix(st *State, s, p Sl, suffix bool) *Term {
	sa, pa := x.slComp(st, s)[0], x.slComp(st, p)[0]
	fits := x.ar.le(p.Len, s.Len, idxII)
	start := s.Off
	if suffix {
		start = x.idxSub(x.idxAdd(s.Off, s.Len), p.Len)
	}
	if p.Len.IsConst() && p.Len.Val.IsInt64() && p.Len.Val.Int64() <= 64 {
		cs := []*Term{fits}
		for i := int64(0); i < p.Len.Val.Int64(); i++ {
			cs = append(cs, Eq(Select(sa, x.idxAdd(start, x.ar.idxC(i))), Select(pa, x.idxAdd(p.Off, x.ar.idxC(i)))))
		}
		return And(cs...)
	}
	j := Var(fmt.Sprintf("j!%d", x.nextEpoch()), x.ar.idxSort())
	in := And(x.ar.le(start, j, idxII), x.ar.lt(j, x.idxAdd(start, p.Len), idxII))
	body := Implies(in, Eq(Select(sa, j), Select(pa, x.idxAdd(x.idxSub(j, start), p.Off))))
	return And(fits, Forall([]*Term{j}, body, []*Term{Select(sa, j)}))
}

// hasBoolOp: the term contains ite/boolean structure (not allowed in patterns).
func hasBoolOp(t *Term) bool {
	switch t.Op {
	case "ite", "not", "and", "or", "=>", "=", "<", "<=", "forall", "exists":
		return true
	}
	for _, a := range t.Args {
		if hasBoolOp(a) {
			return true
		}
	}
	return false
}
