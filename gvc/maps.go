package main

// Go maps: a map value is an object id; its content lives in two-level heap
// arrays indexed by map id and key id:
//   map:has        : Array Int (Array K Bool)
//   map:val<comp>  : Array Int (Array K compSort)   (one per value component)
// Key ids: integers are themselves; strings go through the uninterpreted
// function strid(arr, off, len) (equal spelling of the same string value gives
// the same id; equality of content between differently obtained strings is
// not known, which only weakens what can be proved).

import (
	"go/ast"
	"go/types"
)

var stridDecls = map[string]*FuncDecl{}

// strGtFn: the byte-wise "greater than" relation on strings, over string ids.
func (x *Exec) strGtFn() *FuncDecl {
	d, ok := stridDecls["str_gt"]
	if !ok {
		d = &FuncDecl{Name: "str_gt", Params: []*Sort{IntSort, IntSort}, Ret: BoolSort}
		stridDecls["str_gt"] = d
	}
	return d
}

func (x *Exec) keyID(st *State, kt types.Type, v Value) (*Term, bool) {
	if sl, ok := v.(Sl); ok && isStringType(kt) {
		arr := x.slComp(st, sl)[0]
		name := "strid"
		if x.ar.BV {
			name = "strid_bv"
		}
		d, ok := stridDecls[name]
		if !ok {
			d = &FuncDecl{Name: name, Params: []*Sort{arr.S, sl.Off.S, sl.Len.S}, Ret: IntSort}
			stridDecls[name] = d
		}
		return App(d, arr, sl.Off, sl.Len), true
	}
	if sc, ok := v.(Sc); ok {
		if sc.T.S.Kind == SInt {
			return sc.T, true
		}
	}
	switch v.(type) {
	case St, Ar:
		// struct and array keys: an uninterpreted function of the flattened
		// components (equal keys have equal ids; nothing is assumed about
		// different keys, the injective reading is one of the models)
		ts, ok := x.keyParts(st, kt, v)
		if !ok {
			return nil, false
		}
		name := "keyid_" + safeIdent(typeKey(kt))
		if x.ar.BV {
			name += "_bv"
		}
		d, ok := stridDecls[name]
		if !ok {
			var ps []*Sort
			for _, t := range ts {
				ps = append(ps, t.S)
			}
			d = &FuncDecl{Name: name, Params: ps, Ret: IntSort}
			stridDecls[name] = d
		}
		if len(d.Params) == len(ts) {
			return App(d, ts...), true
		}
	}
	return nil, false
}

// keyParts: the scalar parts a comparable value's identity depends on, so that
// Go-equal values get equal parts: integers and pointers themselves, strings
// by their string id, fixed-size arrays element by element, structs field by
// field.
func (x *Exec) keyParts(st *State, t types.Type, v Value) ([]*Term, bool) {
	switch u := t.Underlying().(type) {
	case *types.Struct:
		sv, ok := v.(St)
		if !ok || len(sv.Fields) != u.NumFields() {
			return nil, false
		}
		var out []*Term
		for i := 0; i < u.NumFields(); i++ {
			ps, ok := x.keyParts(st, u.Field(i).Type(), sv.Fields[i])
			if !ok {
				return nil, false
			}
			out = append(out, ps...)
		}
		return out, true
	case *types.Array:
		av, ok := v.(Ar)
		if !ok || u.Len() > 64 || len(av.Comp) != 1 {
			return nil, false
		}
		var out []*Term
		for i := int64(0); i < u.Len(); i++ {
			out = append(out, Select(av.Comp[0], x.ar.idxC(i)))
		}
		return out, true
	}
	if k, ok := x.keyID(st, t, v); ok {
		return []*Term{k}, true
	}
	return nil, false
}

func safeIdent(s string) string {
	b := []byte(s)
	for i, c := range b {
		if !(c >= 'a' && c <= 'z' || c >= 'A' && c <= 'Z' || c >= '0' && c <= '9') {
			b[i] = '_'
		}
	}
	return string(b)
}

func (x *Exec) mapKeySort() *Sort { return IntSort }

func (x *Exec) mapHasArr(st *State) *Term {
	return x.heapGet(st, "map:has", ArrSort(IntSort, ArrSort(IntSort, BoolSort)))
}

// mapGet: (value, present)
func (x *Exec) mapGet(st *State, mt *types.Map, m *Term, k *Term) (Value, *Term) {
	has := Select(Select(x.mapHasArr(st), m), k)
	l := x.layout(mt.Elem())
	ts := make([]*Term, len(l))
	for i, c := range l {
		arr := x.heapGet(st, "map:val:"+typeKey(mt.Elem())+c.Suffix, ArrSort(IntSort, ArrSort(IntSort, c.S)))
		ts[i] = Ite(has, Select(Select(arr, m), k), x.zeroOfSort(c.S, c.Suffix))
	}
	v := x.unflatten(mt.Elem(), ts)
	return v, has
}

func (x *Exec) mapSet(st *State, mt *types.Map, m *Term, k *Term, v Value) {
	x.noteWrite("map:has", m)
	h := x.mapHasArr(st)
	st.heap["map:has"] = Store(h, m, Store(Select(h, m), k, True))
	l := x.layout(mt.Elem())
	ts := x.flatten(st, mt.Elem(), v)
	for i, c := range l {
		key := "map:val:" + typeKey(mt.Elem()) + c.Suffix
		arr := x.heapGet(st, key, ArrSort(IntSort, ArrSort(IntSort, c.S)))
		st.heap[key] = Store(arr, m, Store(Select(arr, m), k, ts[i]))
	}
}

func (x *Exec) mapDelete(st *State, m *Term, k *Term) {
	x.noteWrite("map:has", m)
	h := x.mapHasArr(st)
	st.heap["map:has"] = Store(h, m, Store(Select(h, m), k, False))
}

// mapIndexModel handles m[k] and v, ok := m[k]; returns nil when the key type
// is not modelled.
func (x *Exec) mapIndexModel(e *ast.IndexExpr, st *State, u *types.Map) Value {
	mv := x.expr(e.X, st)
	kv := x.exprT(e.Index, st, u.Key())
	msc, ok := mv.(Sc)
	if !ok {
		return nil
	}
	k, ok := x.keyID(st, u.Key(), kv)
	if !ok {
		return nil
	}
	v, has := x.mapGet(st, u, msc.T, k)
	if _, isTuple := x.info.TypeOf(e).(*types.Tuple); isTuple {
		return Tu{[]Value{v, Sc{has}}}
	}
	return v
}

// newMap: a freshly allocated, empty map.
func (x *Exec) newMap(st *State, what string) *Term {
	p := x.alloc(st, what)
	h := x.mapHasArr(st)
	st.heap["map:has"] = Store(h, p, ConstArr(ArrSort(IntSort, BoolSort), False))
	return p
}
