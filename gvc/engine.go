package main

// Engine: loading, unit set-up, per-unit verification driver.

import (
	"crypto/sha256"
	"fmt"
	"go/ast"
	"go/token"
	"go/types"
	"os"
	"path/filepath"
	"sort"
	"strings"

	"golang.org/x/tools/go/packages"
)

type Engine struct {
	declCache map[*types.Func]*ast.FuncDecl
	repo   string
	verif  string
	cs     *ContractSet
	pkgs   map[string]*packages.Package
	allT   map[string]*types.Package
	tables map[string]*tableEntry
	kf     *KnownFindings
	overlay map[string][]byte
}

type tableEntry struct {
	ok   bool
	v    Value
	expr ast.Expr
	pkg  *packages.Package
}

func newEngine(repo, verif string) *Engine {
	return &Engine{repo: repo, verif: verif, cs: newContractSet(), pkgs: map[string]*packages.Package{},
		allT: map[string]*types.Package{}, tables: map[string]*tableEntry{}}
}

const modulePath = "github.com/go-git/go-git/v6"

// loadContracts reads library contracts from /verif and every
// verif_contracts.go under the repository.
func (e *Engine) loadContracts() error {
	for _, dir := range []string{"specs", "stdlib"} {
		files, _ := filepath.Glob(filepath.Join(e.verif, dir, "*.gvc"))
		sort.Strings(files)
		for _, f := range files {
			if err := e.cs.loadContractFile(f, ""); err != nil {
				return err
			}
		}
	}
	var files []string
	err := filepath.Walk(e.repo, func(p string, info os.FileInfo, err error) error {
		if err != nil {
			return nil
		}
		if info.IsDir() && (info.Name() == ".git" || info.Name() == "testdata" || info.Name() == "node_modules") {
			return filepath.SkipDir
		}
		if !info.IsDir() && info.Name() == "verif_contracts.go" {
			files = append(files, p)
		}
		return nil
	})
	if err != nil {
		return err
	}
	sort.Strings(files)
	for _, f := range files {
		rel, _ := filepath.Rel(e.repo, filepath.Dir(f))
		pkg := modulePath
		if rel != "." {
			pkg = modulePath + "/" + filepath.ToSlash(rel)
		}
		if err := e.cs.loadContractFile(f, pkg); err != nil {
			return err
		}
	}
	return nil
}

func (e *Engine) loadPackages(paths []string) error {
	var need []string
	for _, p := range paths {
		if _, ok := e.pkgs[p]; !ok {
			need = append(need, p)
		}
	}
	if len(need) == 0 {
		return nil
	}
	cfg := &packages.Config{
		Mode: packages.NeedName | packages.NeedFiles | packages.NeedSyntax | packages.NeedTypes |
			packages.NeedTypesInfo | packages.NeedImports | packages.NeedCompiledGoFiles,
		Dir:        e.repo,
		BuildFlags: []string{"-tags=verif"},
		Env: append(os.Environ(), "GOFLAGS=-mod=mod", "GOPROXY=off", "GOSUMDB=off", "GOTOOLCHAIN=local", "CGO_ENABLED=0",
			"PATH=/opt/veriftools/go1.26.8/bin:"+os.Getenv("PATH")),
	}
	if e.overlay != nil {
		cfg.Overlay = e.overlay
	}
	pkgs, err := packages.Load(cfg, need...)
	if err != nil {
		return err
	}
	for _, p := range pkgs {
		if len(p.Errors) > 0 {
			return fmt.Errorf("package %s: %v", p.PkgPath, p.Errors[0])
		}
		e.pkgs[p.PkgPath] = p
		e.indexTypes(p.Types)
	}
	return nil
}

func (e *Engine) indexTypes(p *types.Package) {
	if p == nil {
		return
	}
	if _, ok := e.allT[p.Path()]; ok {
		return
	}
	e.allT[p.Path()] = p
	for _, i := range p.Imports() {
		e.indexTypes(i)
	}
}

func (e *Engine) typesPkg(path string) *types.Package { return e.allT[path] }

// importedPkg resolves a package qualifier used in a contract of package from.
func (e *Engine) importedPkg(from, name string) *types.Package {
	if p := e.allT[from]; p != nil {
		for _, i := range p.Imports() {
			if i.Name() == name {
				return i
			}
		}
	}
	// fall back to any known package with that name (deterministic: shortest path)
	var best *types.Package
	for _, p := range e.allT {
		if p.Name() == name {
			if best == nil || len(p.Path()) < len(best.Path()) || (len(p.Path()) == len(best.Path()) && p.Path() < best.Path()) {
				best = p
			}
		}
	}
	return best
}

func (e *Engine) ghostDecl(name string) *GhostDecl {
	var found *GhostDecl
	for _, g := range e.cs.Ghost {
		if g.Name == name {
			found = g
		}
	}
	return found
}

func (e *Engine) contractFor(fn *types.Func) *Contract {
	return e.cs.Funcs[funcKey(fn)]
}

// constTable evaluates a package-level table whose initialiser is a literal
// and which is never assigned in its package.
func (e *Engine) constTable(x *Exec, o *types.Var, cur *State) (Value, bool) {
	key := o.Pkg().Path() + "." + o.Name()
	te, ok := e.tables[key]
	if !ok {
		te = &tableEntry{}
		e.tables[key] = te
		p := e.pkgs[o.Pkg().Path()]
		if p != nil {
			te.expr, te.ok = findConstTable(p, o)
			te.pkg = p
		}
	}
	if !te.ok {
		return nil, false
	}
	// evaluate in a scratch executor of the declaring package (same theory)
	sub := *x
	sub.pkg = te.pkg
	sub.info = te.pkg.TypesInfo
	sub.c = nil
	st := newState()
	if _, isMap := o.Type().Underlying().(*types.Map); isMap && cur != nil {
		// a map table lives in the heap: it is built in the state that reads it
		st = cur
	}
	nerr := len(x.errs)
	v := sub.expr(te.expr, st)
	x.freshN = sub.freshN
	x.regionN = sub.regionN
	x.errs = sub.errs
	if len(x.errs) > nerr {
		x.errs = x.errs[:nerr]
		te.ok = false
		return nil, false
	}
	// snapshot region-backed literals
	if sl, ok := v.(Sl); ok && sl.Reg != nil {
		v = Sl{Comp: st.regs[sl.Reg], Off: sl.Off, Len: sl.Len, Nil: sl.Nil, Str: sl.Str}
	}
	x.assumes["table "+key+" is never assigned (checked syntactically in its package)"] = true
	return v, true
}

func findConstTable(p *packages.Package, o *types.Var) (ast.Expr, bool) {
	return findGlobalInit(p, o, false)
}

// findGlobalInit: the initialiser of a package-level variable and whether the
// variable is never assigned (or has its address taken) anywhere in its
// package. With anyInit the initialiser may be any expression.
func findGlobalInit(p *packages.Package, o *types.Var, anyInit bool) (ast.Expr, bool) {
	var init ast.Expr
	for _, f := range p.Syntax {
		for _, d := range f.Decls {
			gd, ok := d.(*ast.GenDecl)
			if !ok || gd.Tok != token.VAR {
				continue
			}
			for _, sp := range gd.Specs {
				vs := sp.(*ast.ValueSpec)
				for i, n := range vs.Names {
					if p.TypesInfo.Defs[n] == o && i < len(vs.Values) && len(vs.Values) == len(vs.Names) {
						init = vs.Values[i]
					}
				}
			}
		}
	}
	if init == nil {
		return nil, false
	}
	if _, ok := unparen(init).(*ast.CompositeLit); !ok && !anyInit {
		// other initialisers are accepted when they contain no call other
		// than len/cap and conversions (evaluated like any expression)
		pure := true
		ast.Inspect(init, func(n ast.Node) bool {
			if call, ok := n.(*ast.CallExpr); ok {
				if id, ok := call.Fun.(*ast.Ident); ok && (id.Name == "len" || id.Name == "cap") {
					return true
				}
				if tv, ok := p.TypesInfo.Types[call.Fun]; ok && tv.IsType() {
					return true
				}
				pure = false
			}
			if _, ok := n.(*ast.FuncLit); ok {
				pure = false
			}
			return true
		})
		if !pure {
			return nil, false
		}
	}
	assigned := false
	rootIs := func(e ast.Expr) bool {
		for {
			switch v := e.(type) {
			case *ast.Ident:
				return p.TypesInfo.ObjectOf(v) == o
			case *ast.IndexExpr:
				e = v.X
			case *ast.SelectorExpr:
				e = v.X
			case *ast.ParenExpr:
				e = v.X
			case *ast.StarExpr:
				e = v.X
			case *ast.SliceExpr:
				e = v.X
			default:
				return false
			}
		}
	}
	for _, f := range p.Syntax {
		ast.Inspect(f, func(n ast.Node) bool {
			switch n := n.(type) {
			case *ast.AssignStmt:
				for _, l := range n.Lhs {
					if rootIs(l) {
						assigned = true
					}
				}
			case *ast.IncDecStmt:
				if rootIs(n.X) {
					assigned = true
				}
			case *ast.UnaryExpr:
				if n.Op == token.AND && rootIs(n.X) {
					assigned = true
				}
			}
			return true
		})
	}
	return init, !assigned
}

// ---- units

func (e *Engine) findUnit(c *Contract) (*Unit, error) {
	p := e.pkgs[c.Pkg]
	if p == nil {
		return nil, fmt.Errorf("package %s not loaded", c.Pkg)
	}
	for _, f := range p.Syntax {
		for _, d := range f.Decls {
			fd, ok := d.(*ast.FuncDecl)
			if !ok || fd.Body == nil {
				continue
			}
			fn, ok := p.TypesInfo.Defs[fd.Name].(*types.Func)
			if !ok {
				continue
			}
			if funcKey(fn) == c.Key {
				return &Unit{Key: c.Key, Short: c.Short, Pkg: p, Decl: fd, Fn: fn, C: c}, nil
			}
		}
	}
	return nil, fmt.Errorf("function %s not found", c.Key)
}

type UnitResult struct {
	Unit     *Unit
	Contract *Contract
	Theory   string
	File     string
	SHA      string
	Obligs   []*Obligation
	Errors   []string
	Abstr    []string
	Assumes  []string
	Used     []string
	Missing  bool
	Replay   *ReplayInfo
}

func numberLoops(body *ast.BlockStmt) map[ast.Stmt]int {
	m := map[ast.Stmt]int{}
	n := 0
	ast.Inspect(body, func(nd ast.Node) bool {
		switch s := nd.(type) {
		case *ast.ForStmt:
			n++
			m[s] = n
		case *ast.RangeStmt:
			n++
			m[s] = n
		}
		return true
	})
	return m
}

func (e *Engine) newExec(u *Unit) *Exec {
	c := u.C
	ar := &Arith{BV: c.Theory == "bv", MathW: 128}
	if w, ok := c.Opts["mathbits"]; ok {
		fmt.Sscanf(w, "%d", &ar.MathW)
	}
	if c.Opts["wrap_ok"] == "true" {
		ar.WrapOK = true
	}
	var info *types.Info
	if u.Pkg != nil {
		info = u.Pkg.TypesInfo
	}
	x := &Exec{eng: e, ar: ar, unit: u, pkg: u.Pkg, info: info, c: c,
		layouts: map[string][]comp{}, siteCount: map[string]int{}, errIDs: map[string]int64{},
		abstr: map[string]bool{}, assumes: map[string]bool{}, specDecls: map[string]*FuncDecl{},
		arrRegions: map[*types.Var]*Region{}, arrSnaps: map[*types.Var]*Region{},usedContracts: map[string]*Contract{}, ghostTypes: map[string]types.Type{},
		coarse: c.Opts["coarse"] == "true", curProps: c.Props}
	return x
}

// verifyLemma: a lemma is a unit without code: fresh parameters, requires
// assumed, ensures to prove. Used for two-contract lemmas over spec functions.
func (e *Engine) verifyLemma(c *Contract) *UnitResult {
	res := &UnitResult{Contract: c, Theory: c.Theory, File: shortFile(c.File)}
	if c.Theory != "bv" && c.Theory != "int" {
		res.Errors = append(res.Errors, "lemma has no theory (bv|int)")
		return res
	}
	u := &Unit{Key: c.Key, Short: c.Short, C: c}
	res.Unit = u
	x := e.newExec(u)
	func() {
		defer func() {
			if r := recover(); r != nil {
				x.errs = append(x.errs, fmt.Sprintf("engine panic: %v", r))
				if os.Getenv("GVC_DEBUG") != "" {
					panic(r)
				}
			}
		}()
		st := newState()
		st.ghosts["$frontier"] = Sc{allocFrontier}
		st.add(ILe(IntC(0), allocFrontier))
		x.entry = st
		env := map[string]cbind{}
		bound := map[string]*Term{}
		for _, p := range c.LParams {
			s := x.specSort(p.Type)
			v := x.freshTerm(p.Name, s)
			switch {
			case p.Type == "bytes" || p.Type == "bool" || p.Type == "id":
				env[p.Name] = cbind{Sc{v}, nil}
			default:
				bound[p.Name] = v
				if ii, ok := basicByName(p.Type); ok {
					// Go integer types: range-restricted mathematical integers
					mi := x.ar.mathInfo()
					st.add(x.ar.le(x.ar.mathC(ii.min()), v, mi))
					st.add(x.ar.le(v, x.ar.mathC(ii.max()), mi))
				}
			}
		}
		mk := func(cl *Clause) *cctx {
			return &cctx{x: x, st: st, old: st, env: env, bound: bound, clause: cl, callee: &Contract{Pkg: c.Pkg}}
		}
		for _, r := range c.Requires {
			st.add(x.cbool(r.Expr, mk(r)))
		}
		cov := x.oblige(st, "cover", "cover.requires", "", False, 0)
		cov.Cover, cov.MustFail = true, true
		for _, en := range c.Ensures {
			x.obligeClause(st, "lemma", "ensures."+en.Label, en, x.cbool(en.Expr, mk(en)), 0)
		}
	}()
	res.Obligs = x.obligs
	res.Errors = append(res.Errors, x.errs...)
	return res
}

func (e *Engine) verifyUnit(c *Contract) *UnitResult {
	if c.IsLemma {
		return e.verifyLemma(c)
	}
	if c.IsGuard {
		return e.verifyGuard(c)
	}
	res := &UnitResult{Contract: c, Theory: c.Theory}
	u, err := e.findUnit(c)
	if err != nil {
		res.Missing = true
		res.Errors = append(res.Errors, err.Error())
		return res
	}
	res.Unit = u
	pos := u.Pkg.Fset.Position(u.Decl.Pos())
	end := u.Pkg.Fset.Position(u.Decl.End())
	res.File = shortFile(pos.Filename)
	if src, err := os.ReadFile(pos.Filename); err == nil && end.Offset <= len(src) {
		if ov, ok := e.overlay[pos.Filename]; ok {
			src = ov
		}
		if end.Offset <= len(src) {
			res.SHA = fmt.Sprintf("%x", sha256.Sum256(src[pos.Offset:end.Offset]))[:16]
		}
	}
	if c.Theory != "bv" && c.Theory != "int" {
		res.Errors = append(res.Errors, "contract has no theory (bv|int)")
		return res
	}
	x := e.newExec(u)
	func() {
		defer func() {
			if r := recover(); r != nil {
				x.errs = append(x.errs, fmt.Sprintf("engine panic: %v", r))
				if os.Getenv("GVC_DEBUG") != "" {
					panic(r)
				}
			}
		}()
		x.run()
	}()
	res.Obligs = x.obligs
	res.Replay = x.replay
	res.Errors = append(res.Errors, x.errs...)
	for k := range x.abstr {
		res.Abstr = append(res.Abstr, k)
	}
	sort.Strings(res.Abstr)
	for k := range x.assumes {
		res.Assumes = append(res.Assumes, k)
	}
	sort.Strings(res.Assumes)
	for k, uc := range x.usedContracts {
		tag := "contract"
		if uc.Trusted {
			tag = "trusted"
		}
		res.Used = append(res.Used, tag+": "+k)
	}
	sort.Strings(res.Used)
	return res
}

// run sets up the entry state and executes the body.
func (x *Exec) run() {
	u := x.unit
	sig := u.Fn.Type().(*types.Signature)
	x.sig = sig
	st := newState()
	st.ghosts["$frontier"] = Sc{allocFrontier}
	st.add(ILe(IntC(0), allocFrontier))
	x.loopOrd = numberLoops(u.Decl.Body)
	x.litOrd = map[*ast.FuncLit]int{}
	nlit := 0
	ast.Inspect(u.Decl.Body, func(n ast.Node) bool {
		if l, ok := n.(*ast.FuncLit); ok {
			nlit++
			x.litOrd[l] = nlit
		}
		return true
	})
	bindParam := func(v *types.Var, hint string) {
		val := x.fresh(st, v.Type(), hint)
		// slice parameters get their own region (assumed separated; recorded)
		if sl, ok := val.(Sl); ok && !sl.Str {
			reg := x.newRegion(hint)
			st.regs[reg] = sl.Comp
			sl.Reg = reg
			sl.Comp = nil
			val = sl
		}
		st.vars[v] = val
		x.recordInput(hint, v.Type(), val, st)
		if _, ok := v.Type().Underlying().(*types.Pointer); ok {
			x.entryPtrs = append(x.entryPtrs, x.scalar(val))
		}
	}
	if sig.Recv() != nil {
		x.recv = sig.Recv()
		bindParam(sig.Recv(), sig.Recv().Name())
		if _, isPtr := sig.Recv().Type().Underlying().(*types.Pointer); isPtr {
			st.add(Neq(x.scalar(st.vars[sig.Recv()]), IntC(0)))
			x.assumes["method receivers are non-nil pointers"] = true
		}
	}
	nslice := 0
	for i := 0; i < sig.Params().Len(); i++ {
		p := sig.Params().At(i)
		x.params = append(x.params, p)
		name := p.Name()
		if name == "" || name == "_" {
			name = fmt.Sprintf("arg%d", i)
		}
		bindParam(p, name)
		if _, ok := p.Type().Underlying().(*types.Slice); ok {
			nslice++
		}
	}
	if nslice > 1 {
		x.assumes["slice parameters of "+u.Short+" do not overlap (separate regions)"] = true
	}
	for i := 0; i < sig.Results().Len(); i++ {
		r := sig.Results().At(i)
		name := r.Name()
		if name == "" || name == "_" {
			if sig.Results().Len() == 1 {
				name = "result"
			} else {
				name = fmt.Sprintf("result%d", i)
			}
			r = types.NewVar(token.NoPos, u.Pkg.Types, name, r.Type())
		}
		if x.c != nil && len(x.c.Results) == sig.Results().Len() {
			name = x.c.Results[i]
		}
		x.results = append(x.results, r)
		x.resNames = append(x.resNames, name)
		st.vars[r] = x.zero(r.Type())
	}
	// entry lets and requires
	x.entry = st
	for _, l := range x.c.Lets {
		v, t := x.cexpr(l.C.Expr, x.cctx(st, l.C))
		st.ghosts[l.Name] = x.nameLet(st, l.Name, v)
		x.ghostTypes[l.Name] = t
	}
	var reqs []*Term
	for _, r := range x.c.Requires {
		g := x.cbool(r.Expr, x.cctx(st, r))
		st.add(g)
		reqs = append(reqs, g)
	}
	x.entry = st.clone()
	// vacuity: the precondition (with type invariants) is satisfiable
	cov := x.oblige(st, "cover", "cover.requires", "", False, u.Decl.Pos())
	cov.Cover = true
	cov.MustFail = true
	outs := x.stmts(u.Decl.Body.List, []*State{st}, nil)
	for _, o := range outs {
		x.finish(o, nil)
	}
	x.checkFrame()
	x.replay = x.buildReplayInfo()
	if x.nReturns == 0 && len(x.errs) == 0 {
		x.fail(u.Decl.Pos(), "no return state reached")
	}
}

// recordInput registers what the solver should be asked for on sat.
// Pointers to structs are followed one level (fields read from the entry heap).
func (x *Exec) recordInput(name string, t types.Type, v Value, st *State) {
	x.recordInputD(name, t, v, st, 0)
}

func (x *Exec) recordInputD(name string, t types.Type, v Value, st *State, depth int) {
	switch v := v.(type) {
	case Sc:
		if _, ok := intInfoOf(t); ok {
			x.inputs = append(x.inputs, ModelInput{Name: name, Kind: "int", T: v.T, Type: t.String(), GoT: t})
			return
		}
		if isBoolType(t) {
			x.inputs = append(x.inputs, ModelInput{Name: name, Kind: "bool", T: v.T, Type: t.String(), GoT: t})
			return
		}
		if pt, ok := t.Underlying().(*types.Pointer); ok && depth == 0 {
			if su, ok := pt.Elem().Underlying().(*types.Struct); ok {
				x.inputs = append(x.inputs, ModelInput{Name: name, Kind: "ptr", T: v.T, Type: t.String(), GoT: t})
				for i := 0; i < su.NumFields(); i++ {
					f := su.Field(i)
					fv := x.heapLoad(st, f.Type(), v.T, typeKey(pt.Elem())+"."+f.Name())
					x.recordInputD(name+"."+f.Name(), f.Type(), fv, st, depth+1)
				}
			}
			return
		}
		if errorLike(t) || isErrorType(t) {
			x.inputs = append(x.inputs, ModelInput{Name: name, Kind: "error", T: v.T, Type: t.String(), GoT: t})
		}
	case Sl:
		if len(x.slComp(st, v)) == 1 {
			if b, ok := sliceElemBasic(t); ok && b {
				kind := "bytes"
				if v.Str {
					kind = "string"
				}
				x.inputs = append(x.inputs, ModelInput{Name: name, Kind: kind, Len: v.Len, Off: v.Off, Arr: x.slComp(st, v)[0], Nil: v.Nil, Type: t.String(), GoT: t})
			}
		}
	case St:
		u, ok := t.Underlying().(*types.Struct)
		if ok {
			for i, f := range v.Fields {
				x.recordInputD(name+"."+u.Field(i).Name(), u.Field(i).Type(), f, st, depth)
			}
		}
	}
}

func sliceElemBasic(t types.Type) (bool, bool) {
	if isStringType(t) {
		return true, true
	}
	if s, ok := t.Underlying().(*types.Slice); ok {
		if ii, ok := intInfoOf(s.Elem()); ok && ii.W == 8 && !ii.Signed {
			return true, true
		}
	}
	return false, false
}

func propsContain(ps []string, p string) bool {
	for _, q := range ps {
		if q == p {
			return true
		}
	}
	return false
}

func uniqueStrings(in []string) []string {
	seen := map[string]bool{}
	var out []string
	for _, s := range in {
		if !seen[s] {
			seen[s] = true
			out = append(out, s)
		}
	}
	sort.Strings(out)
	return out
}

func trimPkg(s string) string {
	return strings.ReplaceAll(s, modulePath+"/", "")
}
