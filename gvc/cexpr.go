package main

// Contract expressions: Go expression syntax + old/forall/exists/implies/ite,
// ghost fields (x.#f), spec functions. Integers are mathematical.

import (
	"fmt"
	"go/ast"
	"go/constant"
	"go/token"
	"go/types"
	"math/big"
	"sort"
	"strconv"
	"strings"
)

type cbind struct {
	v Value
	t types.Type // nil: mathematical integer / bool by sort
}

type cctx struct {
	x        *Exec
	st       *State
	old      *State
	env      map[string]cbind
	oldEnv   map[string]cbind // bindings as they were before the callee's frame was havocked
	callee   *Contract
	resNames []string
	clause   *Clause
	bound    map[string]*Term
	pos      token.Pos
	head     *State // state at the head of the innermost invariant loop
	scope    token.Pos // innermost invariant loop body: disambiguates same-named locals
	now      bool   // parameters denote their current (possibly reassigned) values
}

func (c *cctx) with(cl *Clause) *cctx {
	n := *c
	n.clause = cl
	return &n
}

func (x *Exec) cctx(st *State, cl *Clause) *cctx {
	x.factSink = st
	return &cctx{x: x, st: st, old: x.entry, clause: cl, pos: x.curPos, head: x.loopHead, scope: x.scopePos}
}

type cval struct {
	v Value
	t types.Type // Go type, or nil for math int / plain bool
}

func (c *cctx) fail(format string, args ...interface{}) {
	where := ""
	if c.clause != nil {
		where = fmt.Sprintf("%s:%d: ", shortFile(c.clause.File), c.clause.Line)
	}
	c.x.fail(token.NoPos, "%scontract: %s", where, fmt.Sprintf(format, args...))
}

func (x *Exec) cexpr(e ast.Expr, c *cctx) (Value, types.Type) {
	r := c.eval(e)
	return r.v, r.t
}

func (x *Exec) cbool(e ast.Expr, c *cctx) *Term {
	r := c.eval(e)
	if sc, ok := r.v.(Sc); ok && sc.T.S.Kind == SBool {
		return sc.T
	}
	c.fail("expected boolean: %s", exprString(e))
	return True
}

// cint evaluates to a mathematical integer.
func (x *Exec) cint(e ast.Expr, c *cctx) *Term {
	return c.math(c.eval(e), e)
}

func exprString(e ast.Expr) string { return types.ExprString(e) }

func (c *cctx) math(r cval, at ast.Expr) *Term {
	sc, ok := r.v.(Sc)
	if !ok {
		c.fail("expected integer: %s", exprString(at))
		return c.x.ar.mathC(big.NewInt(0))
	}
	if r.t == nil {
		if sc.T.S.Eq(c.x.ar.mathSort()) {
			return sc.T
		}
		c.fail("expected integer, got %s: %s", sc.T.S, exprString(at))
		return c.x.ar.mathC(big.NewInt(0))
	}
	ii, ok := intInfoOf(r.t)
	if !ok {
		c.fail("expected integer, got %s: %s", r.t, exprString(at))
		return c.x.ar.mathC(big.NewInt(0))
	}
	return c.x.ar.toMath(sc.T, ii)
}

func (c *cctx) isInt(r cval) bool {
	sc, ok := r.v.(Sc)
	if !ok {
		return false
	}
	if r.t == nil {
		return sc.T.S.Eq(c.x.ar.mathSort()) && sc.T.S.Kind != SBool
	}
	_, ok = intInfoOf(r.t)
	return ok
}

func (c *cctx) mathVal(t *Term) cval { return cval{Sc{t}, nil} }
func (c *cctx) boolVal(t *Term) cval { return cval{Sc{t}, nil} }

// idxOf converts a math integer to the index sort.
func (c *cctx) idxOf(m *Term) *Term {
	if !c.x.ar.BV {
		return m
	}
	return BVExtract(63, 0, m)
}

func (c *cctx) idxToMath(i *Term) *Term {
	return c.x.ar.toMath(i, idxII)
}

func (c *cctx) lookupVar(name string) (*types.Var, bool) {
	var best *types.Var
	for v := range c.st.vars {
		if v.Name() != name {
			continue
		}
		if best == nil {
			best = v
			continue
		}
		// prefer the innermost declaration visible at pos
		pos := c.pos
		if !pos.IsValid() {
			pos = c.scope
		}
		if pos.IsValid() && v.Parent() != nil && v.Parent().Contains(pos) {
			if best.Parent() == nil || !best.Parent().Contains(pos) || v.Pos() > best.Pos() {
				best = v
			}
		} else if !pos.IsValid() && v.Pos() < best.Pos() {
			best = v
		}
	}
	return best, best != nil
}

func (c *cctx) evalIdent(id *ast.Ident) cval {
	name := id.Name
	x := c.x
	if t, ok := c.bound[name]; ok {
		return c.mathVal(t)
	}
	switch name {
	case "true":
		return c.boolVal(True)
	case "false":
		return c.boolVal(False)
	case "nil":
		return cval{Sc{IntC(0)}, types.Typ[types.UntypedNil]}
	}
	if b, ok := c.env[name]; ok {
		return cval{b.v, b.t}
	}
	if c.callee == nil {
		if g, ok := c.st.ghosts[name]; ok {
			gt := x.ghostTypes[name]
			if sc, isSc := g.(Sc); isSc && gt == nil && x.ar.BV && sc.T.S.Eq(x.ar.idxSort()) && !sc.T.S.Eq(x.ar.mathSort()) {
				// loop counters (it<N>) are index-sorted: Go ints in the bv theory
				gt = types.Typ[types.Int]
			}
			return cval{g, gt}
		}
		if !c.pos.IsValid() && !c.now {
			// entry/exit context: parameters and results win over shadowing locals
			for i, rn := range x.resNames {
				if rn == name {
					if val, ok := c.st.vars[x.results[i]]; ok {
						return c.unbox(val, x.results[i].Type())
					}
				}
			}
			for _, p := range append([]*types.Var{x.recv}, x.params...) {
				if p != nil && p.Name() == name {
					// parameters denote their entry values (the caller's view);
					// what they point to is read from the current state
					if val, ok := x.entry.vars[p]; ok {
						return cval{val, p.Type()}
					}
					if val, ok := c.st.vars[p]; ok {
						return cval{val, p.Type()}
					}
				}
			}
		}
		if v, ok := c.lookupVar(name); ok {
			return c.unbox(c.st.vars[v], v.Type())
		}
		// results are addressable by their synthesised names
		for i, rn := range x.resNames {
			if rn == name {
				if val, ok := c.st.vars[x.results[i]]; ok {
					return c.unbox(val, x.results[i].Type())
				}
			}
		}
		// a loop let that this path never reached: unconstrained
		if x.c != nil {
			for _, ls := range x.c.Loops {
				for _, l := range ls.Lets {
					if l.Name == name {
						return c.mathVal(x.freshTerm("unbound_"+name, x.ar.mathSort()))
					}
				}
			}
		}
		// a local of the unit that is not bound on this path: unconstrained
		if x.pkg != nil && x.unit != nil && x.unit.Decl != nil {
			for idn, obj := range x.info.Defs {
				if v, ok := obj.(*types.Var); ok && idn.Name == name && !v.IsField() &&
					idn.Pos() >= x.unit.Decl.Pos() && idn.Pos() <= x.unit.Decl.End() {
					return cval{x.fresh(c.st, v.Type(), name), v.Type()}
				}
			}
		}
	} else if g, ok := c.st.ghosts["callee:"+name]; ok {
		return cval{g, nil}
	}
	// package scope of the contract's package
	var pkg *types.Package
	if c.callee != nil {
		pkg = x.eng.typesPkg(c.callee.Pkg)
	} else if x.pkg != nil {
		pkg = x.pkg.Types
	}
	if pkg != nil {
		if o := pkg.Scope().Lookup(name); o != nil {
			return c.evalObject(o, id)
		}
	}
	var known []string
	for k := range c.env {
		known = append(known, k)
	}
	sort.Strings(known)
	c.fail("unknown identifier %s (bound here: %s)", name, strings.Join(known, " "))
	return c.mathVal(x.ar.mathC(big.NewInt(0)))
}

// unbox: a scalar local that lives in the heap (its address was taken) is read
// from its cell; struct locals keep their box (ghost fields and field
// selectors go through the cell's address).
func (c *cctx) unbox(v Value, t types.Type) cval {
	if bx, ok := v.(Bx); ok && t != nil {
		if _, isStruct := t.Underlying().(*types.Struct); !isStruct {
			return cval{c.x.heapLoad(c.st, t, bx.P, ""), t}
		}
	}
	return cval{v, t}
}

func (c *cctx) evalObject(o types.Object, at ast.Expr) cval {
	x := c.x
	switch o := o.(type) {
	case *types.Const:
		if isStringType(o.Type()) {
			return cval{x.stringConst(constant.StringVal(o.Val())), types.Typ[types.String]}
		}
		if isBoolType(o.Type()) {
			return c.boolVal(BoolC(constant.BoolVal(o.Val())))
		}
		if b, ok := newBigFromConst(o.Val()); ok {
			return c.mathVal(x.ar.mathC(b))
		}
	case *types.Var:
		return cval{x.globalVar(o, c.st, at), o.Type()}
	}
	c.fail("unsupported object %s in contract", o.Name())
	return c.mathVal(x.ar.mathC(big.NewInt(0)))
}

func (c *cctx) eval(e ast.Expr) cval {
	x := c.x
	switch e := e.(type) {
	case *ast.ParenExpr:
		return c.eval(e.X)
	case *ast.Ident:
		return c.evalIdent(e)
	case *ast.BasicLit:
		switch e.Kind {
		case token.INT:
			b, ok := new(big.Int).SetString(strings.ReplaceAll(e.Value, "_", ""), 0)
			if !ok {
				c.fail("bad integer literal %s", e.Value)
				b = big.NewInt(0)
			}
			return c.mathVal(x.ar.mathC(b))
		case token.CHAR:
			r, _, _, err := strconv.UnquoteChar(e.Value[1:len(e.Value)-1], '\'')
			if err != nil {
				c.fail("bad char literal %s", e.Value)
			}
			return c.mathVal(x.ar.mathC(big.NewInt(int64(r))))
		case token.STRING:
			s, err := strconv.Unquote(e.Value)
			if err != nil {
				c.fail("bad string literal %s", e.Value)
			}
			return cval{x.stringConst(s), types.Typ[types.String]}
		}
	case *ast.UnaryExpr:
		switch e.Op {
		case token.NOT:
			return c.boolVal(Not(x.cbool(e.X, c)))
		case token.SUB:
			m := c.math(c.eval(e.X), e.X)
			r, err := x.ar.mathBin(token.SUB, x.ar.mathC(big.NewInt(0)), m)
			if err != nil {
				c.fail("%v", err)
			}
			return c.mathVal(r)
		}
	case *ast.BinaryExpr:
		return c.evalBinary(e)
	case *ast.CallExpr:
		return c.evalCall(e)
	case *ast.SelectorExpr:
		return c.evalSelector(e)
	case *ast.IndexExpr:
		base := c.eval(e.X)
		if base.t != nil {
			if mt, ok := base.t.Underlying().(*types.Map); ok {
				// m[k] on a Go map: the stored value, the zero value when absent
				kv := c.eval(e.Index)
				msc, ok1 := base.v.(Sc)
				var k *Term
				ok2 := false
				if ok1 {
					k, ok2 = x.keyID(c.st, mt.Key(), kv.v)
					if !ok2 {
						if _, isSc := kv.v.(Sc); isSc {
							k, ok2 = c.math(kv, e.Index), true
						}
					}
				}
				if !ok1 || !ok2 {
					c.fail("cannot index map %s", exprString(e.X))
					return c.boolVal(True)
				}
				v, _ := x.mapGet(c.st, mt, msc.T, k)
				return cval{v, mt.Elem()}
			}
		}
		i := c.idxOf(c.math(c.eval(e.Index), e.Index))
		switch bv := base.v.(type) {
		case Sl:
			var et types.Type = types.Typ[types.Byte]
			if base.t != nil {
				if u, ok := base.t.Underlying().(*types.Slice); ok {
					et = u.Elem()
				}
			}
			comps := x.slComp(c.st, bv)
			pos := x.idxAdd(bv.Off, i)
			ts := make([]*Term, len(comps))
			for k, cm := range comps {
				ts[k] = Select(cm, pos)
			}
			ev := x.unflatten(et, ts)
			if isRefType(et) {
				// pre-state objects are not the ones this unit allocates
				c.st.add(x.typeFacts(et, ev))
			}
			return cval{ev, et}
		case Ar:
			var et types.Type = types.Typ[types.Byte]
			if base.t != nil {
				if u, ok := base.t.Underlying().(*types.Array); ok {
					et = u.Elem()
				}
			}
			ts := make([]*Term, len(bv.Comp))
			for k, cm := range bv.Comp {
				ts[k] = Select(cm, i)
			}
			return cval{x.unflatten(et, ts), et}
		case Sc:
			// ghost byte array (SMT array): index directly
			if bv.T.S.Kind == SArr {
				if bv.T.S.Idx.Eq(x.ar.mathSort()) && !bv.T.S.Idx.Eq(x.ar.idxSort()) {
					// sequence ghosts are indexed by mathematical integers
					i = c.math(c.eval(e.Index), e.Index)
				}
				return cval{Sc{Select(bv.T, i)}, ghostElemType(bv.T.S, x)}
			}
		}
		c.fail("cannot index %s", exprString(e.X))
	case *ast.SliceExpr:
		base := c.eval(e.X)
		sl, ok := base.v.(Sl)
		if !ok {
			c.fail("cannot slice %s", exprString(e.X))
			break
		}
		lo := x.ar.idxC(0)
		hi := sl.Len
		if e.Low != nil {
			lo = c.idxOf(c.math(c.eval(e.Low), e.Low))
		}
		if e.High != nil {
			hi = c.idxOf(c.math(c.eval(e.High), e.High))
		}
		return cval{Sl{Reg: sl.Reg, Comp: sl.Comp, Off: x.idxAdd(sl.Off, lo), Len: x.idxSub(hi, lo), Nil: False, Str: sl.Str}, base.t}
	}
	c.fail("unsupported contract expression %s", exprString(e))
	return c.boolVal(True)
}

func ghostElemType(s *Sort, x *Exec) types.Type {
	if s.Elem.Eq(x.byteSort()) && (x.ar.BV || true) {
		return types.Typ[types.Byte]
	}
	return nil
}

func (c *cctx) evalBinary(e *ast.BinaryExpr) cval {
	x := c.x
	switch e.Op {
	case token.LAND:
		return c.boolVal(And(x.cbool(e.X, c), x.cbool(e.Y, c)))
	case token.LOR:
		return c.boolVal(Or(x.cbool(e.X, c), x.cbool(e.Y, c)))
	}
	a := c.eval(e.X)
	b := c.eval(e.Y)
	switch e.Op {
	case token.EQL, token.NEQ:
		var eq *Term
		switch {
		case c.isInt(a) && c.isInt(b):
			eq = Eq(c.math(a, e.X), c.math(b, e.Y))
		default:
			eq = c.valueEq(a, b, e)
		}
		if e.Op == token.NEQ {
			eq = Not(eq)
		}
		return c.boolVal(eq)
	case token.LSS, token.LEQ, token.GTR, token.GEQ:
		ma, mb := c.math(a, e.X), c.math(b, e.Y)
		return c.boolVal(x.ar.cmp(e.Op, ma, mb, x.ar.mathInfo()))
	}
	ma, mb := c.math(a, e.X), c.math(b, e.Y)
	r, err := x.ar.mathBin(e.Op, ma, mb)
	if err != nil {
		c.fail("%v: %s", err, exprString(e))
		return c.mathVal(x.ar.mathC(big.NewInt(0)))
	}
	return c.mathVal(r)
}

// valueEq: equality of non-integer values. Slices: identity (same backing
// store, offset, length); strings: content.
func (c *cctx) valueEq(a, b cval, at ast.Expr) *Term {
	x := c.x
	switch av := a.v.(type) {
	case Sc:
		bv, ok := b.v.(Sc)
		if ok && av.T.S.Eq(bv.T.S) {
			return Eq(av.T, bv.T)
		}
		if ok {
			c.fail("sort mismatch in equality %s (%s vs %s)", exprString(at), av.T.S, bv.T.S)
			return True
		}
		if bs, ok := b.v.(Sl); ok && b.t != nil {
			_ = bs
		}
		// x == nil for slices
		if bs, ok := b.v.(Sl); ok && a.t == types.Typ[types.UntypedNil] {
			return bs.Nil
		}
	case Sl:
		if b.t == types.Typ[types.UntypedNil] {
			return av.Nil
		}
		bv, ok := b.v.(Sl)
		if !ok {
			break
		}
		if av.Str || bv.Str {
			return x.stringEq(c.st, av, bv)
		}
		hdr := And(Eq(av.Off, bv.Off), Eq(av.Len, bv.Len))
		if av.Reg != nil && av.Reg == bv.Reg {
			return hdr
		}
		ca, cb := x.slComp(c.st, av), x.slComp(c.st, bv)
		if len(ca) == len(cb) {
			cs := []*Term{hdr}
			for i := range ca {
				cs = append(cs, Eq(ca[i], cb[i]))
			}
			return And(cs...)
		}
	case St:
		if bv, ok := b.v.(St); ok && a.t != nil {
			return x.valuesEqual(c.st, a.t, av, bv)
		}
	}
	c.fail("unsupported equality %s", exprString(at))
	return True
}

func (c *cctx) evalSelector(e *ast.SelectorExpr) cval {
	x := c.x
	// qualified identifier?
	if id, ok := e.X.(*ast.Ident); ok {
		if _, bound := c.bound[id.Name]; !bound {
			if _, isEnv := c.env[id.Name]; !isEnv {
				if _, isVar := c.lookupVarOK(id.Name); !isVar {
					if p := x.eng.importedPkg(c.pkgOfClause(), id.Name); p != nil {
						if o := p.Scope().Lookup(e.Sel.Name); o != nil {
							return c.evalObject(o, e)
						}
					}
				}
			}
		}
	}
	base := c.eval(e.X)
	name := e.Sel.Name
	if strings.HasPrefix(name, "G_") {
		g := strings.TrimPrefix(name, "G_")
		return c.ghostField(base, g, e.X)
	}
	if base.t == nil {
		c.fail("field %s of untyped value", name)
		return c.boolVal(True)
	}
	t := base.t
	cur := base.v
	if p, ok := t.Underlying().(*types.Pointer); ok {
		stT, ok := p.Elem().Underlying().(*types.Struct)
		if !ok {
			c.fail("field of non-struct pointer")
			return c.boolVal(True)
		}
		for i := 0; i < stT.NumFields(); i++ {
			if stT.Field(i).Name() == name {
				f := stT.Field(i)
				pt := x.scalarOf(cur, t)
				return cval{x.heapLoad(c.st, f.Type(), pt, typeKey(p.Elem())+"."+f.Name()), f.Type()}
			}
		}
		// promoted field through embedding (one level)
		for i := 0; i < stT.NumFields(); i++ {
			f := stT.Field(i)
			if !f.Embedded() {
				continue
			}
			inner := cval{x.heapLoad(c.st, f.Type(), x.scalarOf(cur, t), typeKey(p.Elem())+"."+f.Name()), f.Type()}
			if r, ok := c.fieldOf(inner, name); ok {
				return r
			}
		}
		c.fail("no field %s in %s", name, t)
		return c.boolVal(True)
	}
	if r, ok := c.fieldOf(base, name); ok {
		return r
	}
	c.fail("no field %s in %s", name, t)
	return c.boolVal(True)
}

func (c *cctx) fieldOf(base cval, name string) (cval, bool) {
	x := c.x
	t := base.t
	if p, ok := t.Underlying().(*types.Pointer); ok {
		stT, ok := p.Elem().Underlying().(*types.Struct)
		if !ok {
			return cval{}, false
		}
		for i := 0; i < stT.NumFields(); i++ {
			if stT.Field(i).Name() == name {
				f := stT.Field(i)
				return cval{x.heapLoad(c.st, f.Type(), x.scalarOf(base.v, t), typeKey(p.Elem())+"."+f.Name()), f.Type()}, true
			}
		}
		return cval{}, false
	}
	stT, ok := t.Underlying().(*types.Struct)
	sv, ok2 := base.v.(St)
	if !ok || !ok2 {
		return cval{}, false
	}
	for i := 0; i < stT.NumFields(); i++ {
		if stT.Field(i).Name() == name {
			return cval{sv.Fields[i], stT.Field(i).Type()}, true
		}
	}
	return cval{}, false
}

func (c *cctx) lookupVarOK(name string) (*types.Var, bool) {
	if c.callee != nil {
		return nil, false
	}
	if _, ok := c.st.ghosts[name]; ok {
		return nil, true
	}
	return c.lookupVar(name)
}

func (c *cctx) pkgOfClause() string {
	if c.callee != nil {
		return c.callee.Pkg
	}
	if c.x.pkg == nil {
		return ""
	}
	return c.x.pkg.PkgPath
}

// ghostField: x.#name — a ghost cell per object id.
func (c *cctx) ghostField(base cval, g string, at ast.Expr) cval {
	x := c.x
	decl := x.eng.ghostDecl(g)
	if decl == nil {
		c.fail("undeclared ghost field #%s", g)
		return c.boolVal(True)
	}
	if bx, isBx := base.v.(Bx); isBx {
		// a local struct that lives in the heap (address taken): the object is its cell
		base = cval{Sc{bx.P}, base.t}
	}
	if _, isSt := base.v.(St); isSt {
		// an embedded struct value reached through its owner object: the ghost
		// lives at the address of that field, fieldaddr(owner, field)
		switch a := unparen(at).(type) {
		case *ast.Ident:
			if b, ok := c.env["#addr:"+a.Name]; ok {
				base = cval{b.v, base.t}
			}
		case *ast.SelectorExpr:
			if ov, ok := c.eval(a.X).v.(Sc); ok && ov.T.S.Eq(IntSort) {
				base = cval{Sc{App(fieldAddrFn, ov.T, funcID("field:"+a.Sel.Name))}, base.t}
			}
		}
	}
	id, ok := base.v.(Sc)
	if !ok || !id.T.S.Eq(IntSort) {
		c.fail("ghost field #%s of non-object %s", g, exprString(at))
		return c.boolVal(True)
	}
	s := x.ghostSort(decl.Type)
	arr := x.heapGet(c.st, "ghost:"+g, ArrSort(IntSort, s))
	v := Select(arr, id.T)
	if decl.Type == "nat" && len(c.bound) == 0 {
		// type invariant of nat ghosts: 0 <= g <= 2^62 (stream positions, lengths)
		mi := x.ar.mathInfo()
		f := And(x.ar.le(x.ar.mathC(big.NewInt(0)), v, mi), x.ar.le(v, x.ar.mathC(new(big.Int).Lsh(big.NewInt(1), 62)), mi))
		if x.factSink != nil {
			x.factSink.add(f)
		}
	}
	return cval{Sc{v}, nil}
}

func (x *Exec) ghostSort(t string) *Sort {
	switch t {
	case "bool":
		return BoolSort
	case "int", "mathint":
		return x.ar.mathSort()
	case "bytes":
		return ArrSort(x.ar.idxSort(), x.byteSort())
	case "id", "error":
		return IntSort
	case "map":
		// abstract finite map: key id -> object id (0 = absent)
		return ArrSort(IntSort, IntSort)
	case "set":
		return ArrSort(IntSort, BoolSort)
	case "chunkarrs":
		// sequence of byte-array values (trace contracts: chunk k's backing array)
		return ArrSort(x.ar.mathSort(), ArrSort(x.ar.idxSort(), x.byteSort()))
	case "chunkints":
		return ArrSort(x.ar.mathSort(), x.ar.mathSort())
	}
	if ii, ok := basicByName(t); ok {
		return x.ar.sortOfInt(ii)
	}
	return x.ar.mathSort()
}

func basicByName(n string) (intInfo, bool) {
	switch n {
	case "byte", "uint8":
		return intInfo{8, false}, true
	case "uint16":
		return intInfo{16, false}, true
	case "uint32":
		return intInfo{32, false}, true
	case "uint64", "uint":
		return intInfo{64, false}, true
	case "int8":
		return intInfo{8, true}, true
	case "int16":
		return intInfo{16, true}, true
	case "int32":
		return intInfo{32, true}, true
	case "int64", "int":
		return intInfo{64, true}, true
	}
	return intInfo{}, false
}

func (x *Exec) havocGhostAt(st *State, g string, b cbind) {
	if members, ok := x.eng.cs.GhostGroups[g]; ok {
		for _, m := range members {
			x.havocGhostAt(st, m, b)
		}
		return
	}
	decl := x.eng.ghostDecl(g)
	if decl == nil {
		x.fail(token.NoPos, "undeclared ghost field #%s in modifies", g)
		return
	}
	id, ok := b.v.(Sc)
	if !ok {
		return
	}
	s := x.ghostSort(decl.Type)
	key := "ghost:" + g
	x.noteWrite(key, id.T)
	arr := x.heapGet(st, key, ArrSort(IntSort, s))
	st.heap[key] = Store(arr, id.T, x.freshTerm("g_"+g, s))
}

func (c *cctx) evalCall(e *ast.CallExpr) cval {
	x := c.x
	name := ""
	switch f := e.Fun.(type) {
	case *ast.Ident:
		name = f.Name
	case *ast.SelectorExpr:
		name = exprString(f)
	}
	arg := func(i int) ast.Expr {
		if i < len(e.Args) {
			return e.Args[i]
		}
		c.fail("%s: missing argument %d", name, i)
		return &ast.Ident{Name: "false"}
	}
	switch name {
	case "implies":
		return c.boolVal(Implies(x.cbool(arg(0), c), x.cbool(arg(1), c)))
	case "iff":
		return c.boolVal(Eq(x.cbool(arg(0), c), x.cbool(arg(1), c)))
	case "ite":
		cond := x.cbool(arg(0), c)
		a, b := c.eval(arg(1)), c.eval(arg(2))
		if c.isInt(a) && c.isInt(b) {
			return c.mathVal(Ite(cond, c.math(a, arg(1)), c.math(b, arg(2))))
		}
		sa, ok1 := a.v.(Sc)
		sb, ok2 := b.v.(Sc)
		if ok1 && ok2 && sa.T.S.Eq(sb.T.S) {
			return cval{Sc{Ite(cond, sa.T, sb.T)}, a.t}
		}
		c.fail("ite branches of different kinds")
		return a
	case "old":
		n := *c
		n.st = c.old
		if c.oldEnv != nil {
			n.env = c.oldEnv
		}
		return n.eval(arg(0))
	case "now":
		n := *c
		n.now = true
		return n.eval(arg(0))
	case "head":
		if c.head == nil {
			c.fail("head() outside a loop clause")
			return c.boolVal(True)
		}
		n := *c
		n.st = c.head
		return n.eval(arg(0))
	case "len":
		a := c.eval(arg(0))
		switch v := a.v.(type) {
		case Sl:
			return c.mathVal(c.idxToMath(v.Len))
		case Ar:
			return c.mathVal(x.ar.mathC(big.NewInt(v.N)))
		}
		c.fail("len of non-slice %s", exprString(arg(0)))
		return c.mathVal(x.ar.mathC(big.NewInt(0)))
	case "cap":
		// cap(s): the capacity when the executor knows it (three-index slices),
		// otherwise an unknown value >= len(s)
		a := c.eval(arg(0))
		if v, ok := a.v.(Sl); ok {
			if v.Cap != nil {
				return c.mathVal(c.idxToMath(v.Cap))
			}
			u := x.freshTerm("cap", x.ar.idxSort())
			c.st.add(x.ar.le(v.Len, u, idxII))
			return c.mathVal(c.idxToMath(u))
		}
		c.fail("cap of non-slice %s", exprString(arg(0)))
		return c.mathVal(x.ar.mathC(big.NewInt(0)))
	case "forall", "exists":
		if len(e.Args) == 2 {
			// forall(k, P): k ranges over every identity (map key ids, object ids)
			kid, ok := e.Args[0].(*ast.Ident)
			if !ok {
				c.fail("%s: first argument must be an identifier", name)
				return c.boolVal(True)
			}
			k := Var(fmt.Sprintf("%s!q%d", kid.Name, x.nextEpoch()), IntSort)
			n := *c
			n.bound = map[string]*Term{}
			for kk, vv := range c.bound {
				n.bound[kk] = vv
			}
			n.bound[kid.Name] = k
			base := len(c.st.assume)
			body := x.cbool(e.Args[1], &n)
			c.closeFacts(base, k, True)
			if name == "forall" {
				var pats [][]*Term
				if !x.ar.BV {
					pats = autoPatterns(body, k)
				}
				return c.boolVal(Forall([]*Term{k}, body, pats...))
			}
			return c.boolVal(Exists([]*Term{k}, body))
		}
		if len(e.Args) < 4 {
			c.fail("%s(k, lo, hi, P)", name)
			return c.boolVal(True)
		}
		kid, ok := e.Args[0].(*ast.Ident)
		if !ok {
			c.fail("%s: first argument must be an identifier", name)
			return c.boolVal(True)
		}
		lo := c.math(c.eval(e.Args[1]), e.Args[1])
		hi := c.math(c.eval(e.Args[2]), e.Args[2])
		if lo.IsConst() && hi.IsConst() && len(e.Args) == 4 && hi.Val.Cmp(lo.Val) > 0 && new(big.Int).Sub(hi.Val, lo.Val).Cmp(big.NewInt(16)) <= 0 {
			// a short constant range is expanded instead of quantified
			var parts []*Term
			for v := new(big.Int).Set(lo.Val); v.Cmp(hi.Val) < 0; v = new(big.Int).Add(v, big.NewInt(1)) {
				n := *c
				n.bound = map[string]*Term{}
				for kk, vv := range c.bound {
					n.bound[kk] = vv
				}
				n.bound[kid.Name] = x.ar.mathC(v)
				parts = append(parts, x.cbool(e.Args[3], &n))
			}
			if name == "forall" {
				return c.boolVal(And(parts...))
			}
			return c.boolVal(Or(parts...))
		}
		k := Var(fmt.Sprintf("%s!q%d", kid.Name, x.nextEpoch()), x.ar.mathSort())
		n := *c
		n.bound = map[string]*Term{}
		for kk, vv := range c.bound {
			n.bound[kk] = vv
		}
		n.bound[kid.Name] = k
		base := len(c.st.assume)
		body := x.cbool(e.Args[3], &n)
		mi := x.ar.mathInfo()
		rng := And(x.ar.le(lo, k, mi), x.ar.lt(k, hi, mi))
		c.closeFacts(base, k, rng)
		var pats [][]*Term
		for _, p := range e.Args[4:] {
			// explicit patterns: pat(e1, e2, ...)
			if pc, ok := p.(*ast.CallExpr); ok {
				var ps []*Term
				for _, pe := range pc.Args {
					r := n.eval(pe)
					if sc, ok := r.v.(Sc); ok {
						ps = append(ps, sc.T)
					}
				}
				if len(ps) > 0 {
					pats = append(pats, ps)
				}
			}
		}
		if len(pats) == 0 && !x.ar.BV {
			pats = autoPatterns(body, k)
		}
		if name == "forall" {
			return c.boolVal(Forall([]*Term{k}, Implies(rng, body), pats...))
		}
		return c.boolVal(Exists([]*Term{k}, And(rng, body)))
	case "is":
		// is(err, Sentinel): errors.Is
		a := c.eval(arg(0))
		b := c.eval(arg(1))
		ta, tb := x.scalarOf(a.v, nil), x.scalarOf(b.v, nil)
		return c.boolVal(And(Neq(ta, IntC(0)), Or(Eq(ta, tb), Eq(errRoot(ta), errRoot(tb)))))
	case "min", "max":
		a, b := c.math(c.eval(arg(0)), arg(0)), c.math(c.eval(arg(1)), arg(1))
		le := x.ar.le(a, b, x.ar.mathInfo())
		if name == "min" {
			return c.mathVal(Ite(le, a, b))
		}
		return c.mathVal(Ite(le, b, a))
	case "byte", "uint8", "uint16", "uint32", "uint64", "uint", "int8", "int16", "int32", "int64", "int":
		// wrap a mathematical integer into the Go type's range
		ii, _ := basicByName(name)
		m := c.math(c.eval(arg(0)), arg(0))
		if x.ar.BV {
			lowBits := BVExtract(ii.W-1, 0, m)
			return c.mathVal(x.ar.toMath(lowBits, ii))
		}
		return c.mathVal(wrapInt(m, ii))
	case "has_prefix", "has_suffix":
		a, b := c.eval(arg(0)), c.eval(arg(1))
		sa, ok1 := a.v.(Sl)
		sb, ok2 := b.v.(Sl)
		if !ok1 || !ok2 {
			c.fail("%s wants slices/strings", name)
			return c.boolVal(True)
		}
		return c.boolVal(x.hasPrefix(c.st, sa, sb, name == "has_suffix"))
	case "bytes_eq":
		// bytes_eq(a, b): same length and content
		a, b := c.eval(arg(0)), c.eval(arg(1))
		sa, ok1 := a.v.(Sl)
		sb, ok2 := b.v.(Sl)
		if !ok1 || !ok2 {
			c.fail("bytes_eq wants slices/strings")
			return c.boolVal(True)
		}
		return c.boolVal(x.stringEq(c.st, sa, sb))
	case "deref":
		// deref(p): the value a pointer points to
		a := c.eval(arg(0))
		if a.t == nil {
			c.fail("deref of untyped value")
			return c.boolVal(True)
		}
		pt, ok := a.t.Underlying().(*types.Pointer)
		if !ok {
			c.fail("deref of non-pointer")
			return c.boolVal(True)
		}
		return cval{x.heapLoad(c.st, pt.Elem(), x.scalarOf(a.v, a.t), ""), pt.Elem()}
	case "same_string":
		// identity of two strings/slices: same backing array, offset and length
		a, b := c.eval(arg(0)), c.eval(arg(1))
		sa, ok1 := a.v.(Sl)
		sb, ok2 := b.v.(Sl)
		if !ok1 || !ok2 {
			c.fail("same_string wants strings")
			return c.boolVal(True)
		}
		ca, cb := x.slComp(c.st, sa), x.slComp(c.st, sb)
		cs := []*Term{Eq(sa.Off, sb.Off), Eq(sa.Len, sb.Len)}
		for i := range ca {
			if i < len(cb) {
				cs = append(cs, Eq(ca[i], cb[i]))
			}
		}
		return c.boolVal(And(cs...))
	case "strid":
		// strid(s): the key id of a string (as used for string-keyed maps)
		a := c.eval(arg(0))
		k, ok := x.keyID(c.st, types.Typ[types.String], a.v)
		if !ok {
			c.fail("strid wants a string")
			return c.boolVal(True)
		}
		return cval{Sc{k}, nil}
	case "has":
		// has(m, k): key k is present in Go map m
		m := c.eval(arg(0))
		kv := c.eval(arg(1))
		mt, ok := m.t.Underlying().(*types.Map)
		if m.t == nil || !ok {
			c.fail("has wants a map")
			return c.boolVal(True)
		}
		k, ok := x.keyID(c.st, mt.Key(), kv.v)
		if !ok {
			if c.isInt(kv) {
				k, ok = c.math(kv, arg(1)), true
			}
		}
		if !ok {
			c.fail("has: unsupported key")
			return c.boolVal(True)
		}
		return c.boolVal(Select(Select(x.mapHasArr(c.st), x.scalarOf(m.v, m.t)), k))
	case "calls", "lastarg", "lastres":
		// call records of the unit (see trace.go)
		lit, ok := arg(0).(*ast.BasicLit)
		if !ok || lit.Kind != token.STRING {
			c.fail("%s wants a callee name string", name)
			return c.boolVal(True)
		}
		cn, _ := strconv.Unquote(lit.Value)
		switch name {
		case "calls":
			if v, ok := c.st.ghosts["$calls:"+cn].(Sc); ok {
				return c.mathVal(v.T)
			}
			return c.mathVal(x.ar.mathC(big.NewInt(0)))
		case "lastres":
			if v, ok := c.st.ghosts["$res:"+cn].(Sc); ok {
				return cval{v, types.Universe.Lookup("error").Type()}
			}
			return cval{Sc{x.freshTerm("nores", IntSort)}, types.Universe.Lookup("error").Type()}
		default:
			k := 0
			if len(e.Args) > 1 {
				if kl, ok := arg(1).(*ast.BasicLit); ok {
					k, _ = strconv.Atoi(kl.Value)
				}
			}
			if v, ok := c.st.ghosts[fmt.Sprintf("$arg%d:%s", k, cn)].(Sc); ok {
				return cval{v, types.Typ[types.UnsafePointer]}
			}
			return cval{Sc{x.freshTerm("noarg", IntSort)}, types.Typ[types.UnsafePointer]}
		}
	case "allocated":
		// allocated(p): p is nil or an object that exists now (it is not one a
		// later allocation returns)
		a := c.eval(arg(0))
		return c.boolVal(ILe(x.scalarOf(a.v, nil), x.frontier(c.st)))
	case "typeis":
		// typeis(x, "T"): the interface value x holds a non-nil *T
		a := c.eval(arg(0))
		lit, ok := arg(1).(*ast.BasicLit)
		if !ok || lit.Kind != token.STRING {
			c.fail("typeis(x, \"T\") wants a string literal")
			return c.boolVal(True)
		}
		tn, _ := strconv.Unquote(lit.Value)
		pkgPath := c.pkgOfClause()
		if j := strings.LastIndex(tn, "."); j >= 0 {
			if p := x.eng.importedPkg(pkgPath, tn[:j]); p != nil {
				pkgPath = p.Path()
			}
			tn = tn[j+1:]
		}
		tp := x.eng.typesPkg(pkgPath)
		if tp == nil || tp.Scope().Lookup(tn) == nil {
			c.fail("typeis: unknown type %s", tn)
			return c.boolVal(True)
		}
		id := x.scalarOf(a.v, nil)
		return c.boolVal(And(Neq(id, IntC(0)), Eq(App(dyntypeFn, id), typeID(types.NewPointer(tp.Scope().Lookup(tn).Type())))))
	case "strgt":
		// strgt(a, b): Go's a > b on the strings with ids a and b
		a := c.math(c.eval(arg(0)), arg(0))
		b := c.math(c.eval(arg(1)), arg(1))
		return c.boolVal(App(x.strGtFn(), a, b))
	case "keyid":
		// keyid(v): the map-key identity of a struct, array or string value
		a := c.eval(arg(0))
		if k, ok := x.keyID(c.st, a.t, a.v); ok {
			return cval{Sc{k}, types.Typ[types.Int]}
		}
		c.fail("keyid: unsupported key %s", exprString(arg(0)))
		return c.boolVal(True)
	case "field":
		// field(x, "T.f"): field f of the object x points to, viewed as a *T of
		// the contract's package (for values held in interface variables)
		a := c.eval(arg(0))
		lit, ok := arg(1).(*ast.BasicLit)
		if !ok || lit.Kind != token.STRING {
			c.fail("field(x, \"T.f\") wants a string literal")
			return c.boolVal(True)
		}
		tf, _ := strconv.Unquote(lit.Value)
		i := strings.LastIndex(tf, ".")
		if i < 0 {
			c.fail("field: want T.f")
			return c.boolVal(True)
		}
		tn, fname := tf[:i], tf[i+1:]
		pkgPath := c.pkgOfClause()
		if j := strings.LastIndex(tn, "."); j >= 0 {
			if p := x.eng.importedPkg(pkgPath, tn[:j]); p != nil {
				pkgPath = p.Path()
			}
			tn = tn[j+1:]
		}
		tp := x.eng.typesPkg(pkgPath)
		if tp == nil {
			c.fail("field: unknown package for %s", tf)
			return c.boolVal(True)
		}
		obj := tp.Scope().Lookup(tn)
		if obj == nil {
			c.fail("field: unknown type %s", tn)
			return c.boolVal(True)
		}
		return c.fieldOfMust(cval{Sc{x.scalarOf(a.v, nil)}, types.NewPointer(obj.Type())}, fname)
	case "store":
		// store(a, i, v) on ghost byte arrays
		a := c.eval(arg(0))
		as, ok := a.v.(Sc)
		if !ok || as.T.S.Kind != SArr {
			c.fail("store wants a ghost array")
			return c.boolVal(True)
		}
		i := c.idxOf(c.math(c.eval(arg(1)), arg(1)))
		if as.T.S.Idx.Eq(x.ar.mathSort()) && !as.T.S.Idx.Eq(x.ar.idxSort()) {
			i = c.math(c.eval(arg(1)), arg(1))
		}
		v := c.eval(arg(2))
		var vt *Term
		if as.T.S.Elem.Eq(x.byteSort()) && c.isInt(v) {
			m := c.math(v, arg(2))
			if x.ar.BV {
				vt = BVExtract(7, 0, m)
			} else {
				vt = m
			}
		} else {
			vt = x.scalarOf(v.v, v.t)
		}
		return cval{Sc{Store(as.T, i, vt)}, nil}
	case "same_array":
		a, b := c.eval(arg(0)), c.eval(arg(1))
		sa, ok1 := a.v.(Sl)
		sb, ok2 := b.v.(Sl)
		if !ok1 || !ok2 {
			c.fail("same_array wants slices")
			return c.boolVal(True)
		}
		if sa.Reg != nil && sa.Reg == sb.Reg {
			return c.boolVal(True)
		}
		ca, cb := x.slComp(c.st, sa), x.slComp(c.st, sb)
		var cs []*Term
		for i := range ca {
			if i < len(cb) {
				cs = append(cs, Eq(ca[i], cb[i]))
			}
		}
		return c.boolVal(And(cs...))
	case "off":
		a := c.eval(arg(0))
		if s, ok := a.v.(Sl); ok {
			return c.mathVal(c.idxToMath(s.Off))
		}
		c.fail("off of non-slice")
		return c.mathVal(x.ar.mathC(big.NewInt(0)))
	case "arr":
		// arr(s): the backing array of s as a ghost byte array value
		a := c.eval(arg(0))
		if s, ok := a.v.(Sl); ok {
			return cval{Sc{x.slComp(c.st, s)[0]}, nil}
		}
		if av, ok := a.v.(Ar); ok && len(av.Comp) == 1 {
			return cval{Sc{av.Comp[0]}, nil}
		}
		c.fail("arr of non-slice")
		return c.boolVal(True)
	}
	// predicate macro
	if pd, ok := x.eng.cs.Preds[name]; ok {
		if len(e.Args) != len(pd.Params) {
			c.fail("%s: want %d arguments", name, len(pd.Params))
			return c.boolVal(True)
		}
		n := *c
		n.env = map[string]cbind{}
		for k, v := range c.env {
			n.env[k] = v
		}
		for i, a := range e.Args {
			r := c.eval(a)
			n.env[pd.Params[i]] = cbind{r.v, r.t}
		}
		return n.eval(pd.Body)
	}
	// spec function
	if sf, ok := x.eng.cs.Specs[name]; ok {
		return c.callSpec(sf, e)
	}
	c.fail("unknown function %s in contract", name)
	return c.boolVal(True)
}

// autoPatterns: select terms over the bound variable.
// closeFacts: type-invariant facts recorded in the state while a quantifier
// body was evaluated may mention the bound variable; they hold for every
// value of it, so they are kept as universally quantified facts (over the
// quantifier's range) instead of leaking the variable.
func (c *cctx) closeFacts(base int, k *Term, rng *Term) {
	if base > len(c.st.assume) {
		return
	}
	added := append([]*Term(nil), c.st.assume[base:]...)
	c.st.assume = c.st.assume[:base]
	for _, f := range added {
		if !termMentions(f, k.Name) {
			c.st.add(f)
			continue
		}
		// a canonical bound variable (per nesting depth) makes the same fact
		// found in several evaluations the same term, so it is stated once
		kc := Var(fmt.Sprintf("tf!k%d", len(c.bound)), k.S)
		g := subst(Implies(rng, f), map[string]*Term{k.Name: kc})
		var pats [][]*Term
		if !c.x.ar.BV {
			pats = autoPatterns(g, kc)
		}
		c.st.add(Forall([]*Term{kc}, g, pats...))
	}
}

func termMentions(t *Term, name string) bool {
	if t.Op == "var" {
		return t.Name == name
	}
	for _, a := range t.Args {
		if termMentions(a, name) {
			return true
		}
	}
	return false
}

func autoPatterns(body *Term, k *Term) [][]*Term {
	var pats [][]*Term
	seen := map[string]bool{}
	var mentions func(t *Term) bool
	mentions = func(t *Term) bool {
		if t.Op == "var" {
			return t.Name == k.Name
		}
		for _, a := range t.Args {
			if mentions(a) {
				return true
			}
		}
		return false
	}
	var walk func(t *Term)
	walk = func(t *Term) {
		if t.Op == "forall" || t.Op == "exists" {
			return
		}
		if t.Op == "app" && t.Fn != nil && t.Fn.Body != nil {
			// a defined function is a macro for the solver: not a pattern
			for _, a := range t.Args {
				walk(a)
			}
			return
		}
		if (t.Op == "select" || t.Op == "app") && mentions(t) {
			// only patterns whose non-ground part is the index
			ok := true
			if t.Op == "select" && mentions(t.Args[0]) {
				ok = false
			}
			if hasBoolOp(t) {
				ok = false
			}
			if ok && !seen[t.String()] {
				seen[t.String()] = true
				pats = append(pats, []*Term{t})
			}
			return
		}
		for _, a := range t.Args {
			walk(a)
		}
	}
	walk(body)
	if len(pats) > 4 {
		pats = pats[:4]
	}
	return pats
}

// ---- spec functions

func (x *Exec) specSort(t string) *Sort {
	switch t {
	case "bool":
		return BoolSort
	case "mathint", "int":
		return x.ar.mathSort()
	case "bytes":
		return ArrSort(x.ar.idxSort(), x.byteSort())
	case "id":
		return IntSort
	}
	if _, ok := basicByName(t); ok {
		return x.ar.mathSort() // integers travel as mathematical integers
	}
	return x.ar.mathSort()
}

func (x *Exec) specDecl(sf *SpecFunc) *FuncDecl {
	if d, ok := x.specDecls[sf.Name]; ok {
		return d
	}
	d := &FuncDecl{Name: sf.Name, Ret: x.specSort(sf.Ret)}
	for _, p := range sf.Params {
		d.Params = append(d.Params, x.specSort(p.Type))
		d.PNames = append(d.PNames, "p!"+sf.Name+"!"+p.Name)
	}
	x.specDecls[sf.Name] = d
	revealed := !sf.Opaque
	if x.c != nil {
		for _, r := range x.c.Reveal {
			if r == sf.Name || r == "*" {
				revealed = true
			}
		}
	}
	if sf.Body != nil && revealed {
		bound := map[string]*Term{}
		env := map[string]cbind{}
		for i, p := range sf.Params {
			v := Var(d.PNames[i], d.Params[i])
			switch p.Type {
			case "bytes":
				env[p.Name] = cbind{Sc{v}, nil}
			default:
				bound[p.Name] = v
				if d.Params[i].Kind == SBool {
					delete(bound, p.Name)
					env[p.Name] = cbind{Sc{v}, nil}
				}
			}
		}
		cx := &cctx{x: x, st: newState(), old: newState(), env: env, bound: bound,
			clause: &Clause{File: sf.File, Line: sf.Line}, callee: &Contract{Pkg: ""}}
		nerr := len(x.errs)
		r := cx.eval(sf.Body)
		if len(x.errs) > nerr {
			// the body is not expressible in this unit's theory: the symbol stays
			// uninterpreted here (sound: fewer facts), and is the same symbol in
			// every contract that mentions it
			x.errs = x.errs[:nerr]
			x.abstr["spec "+sf.Name+" is uninterpreted in this unit's theory"] = true
			return d
		}
		var body *Term
		if d.Ret.Kind == SBool {
			if sc, ok := r.v.(Sc); ok && sc.T.S.Kind == SBool {
				body = sc.T
			}
		} else if d.Ret.Kind == SArr {
			if sc, ok := r.v.(Sc); ok {
				body = sc.T
			}
		} else {
			body = cx.math(r, sf.Body)
			if ii, ok := basicByName(sf.Ret); ok && sf.Ret != "int" {
				// results of Go integer type are wrapped into range
				if x.ar.BV {
					body = x.ar.toMath(BVExtract(ii.W-1, 0, body), ii)
				} else {
					body = wrapInt(body, ii)
				}
			}
		}
		if body != nil {
			d.Body = body
		}
	}
	return d
}

func (c *cctx) callSpec(sf *SpecFunc, e *ast.CallExpr) cval {
	x := c.x
	d := x.specDecl(sf)
	if len(e.Args) != len(sf.Params) {
		c.fail("%s: want %d arguments", sf.Name, len(sf.Params))
		return c.boolVal(True)
	}
	args := make([]*Term, len(e.Args))
	for i, a := range e.Args {
		r := c.eval(a)
		switch sf.Params[i].Type {
		case "bool":
			args[i] = x.cbool(a, c)
		case "bytes":
			switch v := r.v.(type) {
			case Sl:
				c.fail("%s: pass arr(s) and offsets explicitly for bytes parameters", sf.Name)
				args[i] = x.slComp(c.st, v)[0]
			case Sc:
				args[i] = v.T
			}
		case "id":
			args[i] = x.scalarOf(r.v, r.t)
		default:
			args[i] = c.math(r, a)
		}
		if args[i] == nil || !args[i].S.Eq(d.Params[i]) {
			c.fail("%s: argument %d has the wrong sort", sf.Name, i)
			return c.boolVal(True)
		}
	}
	return cval{Sc{App(d, args...)}, nil}
}

// ---- clauses as obligations / assumptions

func (x *Exec) obligeClause(st *State, kind, name string, cl *Clause, goal *Term, pos token.Pos) {
	old := x.curProps
	if len(cl.Props) > 0 {
		x.curProps = cl.Props
	}
	o := x.oblige(st, kind, name, cl.Label, goal, pos)
	o.Pos = fmt.Sprintf("%s (%s:%d)", o.Pos, shortFile(cl.File), cl.Line)
	x.curProps = old
}

// slice-typed equalities `v == E` are definitional when assumed: v takes E's
// backing store. Returns true when handled.
func (x *Exec) definitional(c *cctx, e ast.Expr, guard *Term, setter func(name string, v Value, t types.Type) bool) bool {
	be, ok := unparen(e).(*ast.BinaryExpr)
	if !ok || be.Op != token.EQL {
		return false
	}
	id, ok := unparen(be.X).(*ast.Ident)
	if !ok {
		return false
	}
	lhs := c.eval(id)
	sl, ok := lhs.v.(Sl)
	if !ok || lhs.t == nil {
		return false
	}
	rhs := c.eval(be.Y)
	rs, ok := rhs.v.(Sl)
	if !ok {
		return false
	}
	nv := Value(rs)
	if sl.Str {
		rs.Str = true
		nv = rs
	}
	if guard != nil {
		m, ok := x.mergeVal(guard, lhs.t, nv, sl, c.st, c.st)
		if !ok {
			return false
		}
		nv = m
	}
	return setter(id.Name, nv, lhs.t)
}

func (x *Exec) assumeEnsures(c *cctx, en *Clause, env map[string]cbind, resN []string) {
	isRes := func(n string) bool {
		for _, r := range resN {
			if r == n {
				return true
			}
		}
		return false
	}
	setter := func(name string, v Value, t types.Type) bool {
		if !isRes(name) {
			return false
		}
		env[name] = cbind{v, t}
		c.st.add(x.typeFacts(t, v))
		return true
	}
	e := unparen(en.Expr)
	if x.definitional(c, e, nil, setter) {
		return
	}
	if call, ok := e.(*ast.CallExpr); ok {
		if id, ok := call.Fun.(*ast.Ident); ok && id.Name == "implies" && len(call.Args) == 2 {
			g := x.cbool(call.Args[0], c)
			if x.definitional(c, call.Args[1], g, setter) {
				return
			}
		}
	}
	c.st.add(x.cbool(en.Expr, c))
}

// assumeClause assumes a loop invariant in the havocked state.
func (x *Exec) assumeClause(h *State, inv *Clause, mods *modSet) {
	c := x.cctx(h, inv)
	setter := func(name string, v Value, t types.Type) bool {
		vr, ok := c.lookupVar(name)
		if !ok || !mods.vars[vr] {
			return false
		}
		h.vars[vr] = v
		h.add(x.typeFacts(t, v))
		return true
	}
	// conjunctions are processed conjunct by conjunct
	var conj func(e ast.Expr)
	conj = func(e ast.Expr) {
		e = unparen(e)
		if be, ok := e.(*ast.BinaryExpr); ok && be.Op == token.LAND {
			conj(be.X)
			conj(be.Y)
			return
		}
		if x.definitional(c, e, nil, setter) {
			return
		}
		h.add(x.cbool(e, c))
	}
	conj(inv.Expr)
}

// checkPost: postconditions at a return state.
func (x *Exec) checkPost(st *State, retName string, pos token.Pos) {
	if x.c == nil {
		return
	}
	oldPos := x.curPos
	x.curPos = token.NoPos
	defer func() { x.curPos = oldPos }()
	for _, en := range x.c.Ensures {
		c := x.cctx(st, en)
		g := x.cbool(en.Expr, c)
		name := "post." + en.Label
		if retName != "" {
			name += "@" + retName
		}
		// known-finding carve-outs
		var kfs []*KFSpec
		for _, kf := range x.c.KFs {
			if kf.Label == en.Label {
				kfs = append(kfs, kf)
			}
		}
		if len(kfs) == 0 {
			x.obligeClause(st, "post", name, en, g, pos)
			continue
		}
		var classes []*Term
		for _, kf := range kfs {
			cc := x.cctx(st, kf.When)
			w := x.cbool(kf.When.Expr, cc)
			classes = append(classes, w)
			sk := st.clone()
			sk.add(w)
			old := x.curProps
			if len(en.Props) > 0 {
				x.curProps = en.Props
			}
			o := x.oblige(sk, "post", name+".kf."+kf.ID, en.Label, g, pos)
			o.MustFail = true
			o.KF = kf.ID
			x.curProps = old
		}
		sn := st.clone()
		sn.add(Not(Or(classes...)))
		x.obligeClause(sn, "post", name, en, g, pos)
	}
}

func (c *cctx) fieldOfMust(base cval, name string) cval {
	if r, ok := c.fieldOf(base, name); ok {
		return r
	}
	c.fail("no field %s", name)
	return c.boolVal(True)
}
